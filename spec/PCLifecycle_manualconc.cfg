SPECIFICATION Spec
CONSTANTS
  Configs <- ManualConfigs
  Codes <- Codes01
  MaxLaunch = 1
  MaxInst = 3
  MaxApi = 2
  ApiOps <- StopStartRestart
  SerializeApi = FALSE
  StartFailures = FALSE
INVARIANTS AllInvs AtRestOK
CHECK_DEADLOCK FALSE
