SPECIFICATION Spec
CONSTANTS
  Configs <- ManualConfigs
  Codes <- Codes01
  MaxLaunch = 2
  MaxInst = 3
  MaxApi = 2
  ApiOps <- StopStartRestart
  SerializeApi = TRUE
  StartFailures = FALSE
INVARIANTS AllInvs AtRestOK
CHECK_DEADLOCK FALSE
