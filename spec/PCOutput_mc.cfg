SPECIFICATION OSpec
CONSTANTS
  Streams = {"o", "e"}
  MaxLines = 3
  WaitFor = {"o", "e"}
INVARIANT C11_Design_AllLinesOnceInOrder
CHECK_DEADLOCK FALSE
