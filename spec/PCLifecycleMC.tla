--------------------------- MODULE PCLifecycleMC ---------------------------
(* Bounded configurations of the design model (one family per cfg file). *)
EXTENDS PCLifecycle

Proc(n) == [name |-> n, policy |-> "no", maxRestarts |-> 0, backoff |-> 0, exitOnEnd |-> FALSE,
            exitOnSkipped |-> FALSE, deferred |-> FALSE, daemon |-> FALSE, hasReadyProbe |-> FALSE,
            hasLiveProbe |-> FALSE, hasReadyLine |-> FALSE, threshold |-> 1, shutdownTimeout |-> 0,
            signal |-> 0, badWorkdir |-> FALSE]

Conds == {"process_completed", "process_completed_successfully", "process_healthy",
          "process_log_ready", "process_started"}
CondOrNone == Conds \cup {"none"}

SetToSeqAny(s) ==
  LET RECURSIVE F(_)
      F(x) == IF x = {} THEN <<>> ELSE LET e == CHOOSE y \in x : TRUE IN <<e>> \o F(x \ {e})
  IN F(s)

\* give every dependency what the conditions of its dependents need
Feature(procs, edges) ==
  [k \in DOMAIN procs |->
     [procs[k] EXCEPT !.hasReadyProbe = (@ \/ \E e \in edges : e.k = procs[k].name /\ e.cond = "process_healthy"),
                      !.hasReadyLine  = (@ \/ \E e \in edges : e.k = procs[k].name /\ e.cond = "process_log_ready")]]

Compatible(procs) == \A k \in DOMAIN procs : ~(procs[k].hasReadyProbe /\ procs[k].hasReadyLine)

MkCfg(procs, edges, ordered) ==
  [procs |-> Feature(procs, edges), edges |-> SetToSeqAny(edges), ordered |-> ordered, backoffScaleUs |-> 20000]

Edge(p, k, c) == [p |-> p, k |-> k, cond |-> c]

\* ---- gating: two and three processes, every condition on every possible edge
Gating2 ==
  { MkCfg(<<Proc("a"), pb>>, IF c = "none" THEN {} ELSE {Edge("b", "a", c)}, FALSE) :
      c \in CondOrNone, pb \in { Proc("b"), [Proc("b") EXCEPT !.exitOnSkipped = TRUE] } }

Gating3All ==
  { MkCfg(<<Proc("a"), Proc("b"), Proc("c")>>,
          (IF c1 = "none" THEN {} ELSE {Edge("b", "a", c1)}) \cup
          (IF c2 = "none" THEN {} ELSE {Edge("c", "a", c2)}) \cup
          (IF c3 = "none" THEN {} ELSE {Edge("c", "b", c3)}), FALSE) :
      c1 \in CondOrNone, c2 \in CondOrNone, c3 \in CondOrNone }
Gating3 == { c \in Gating3All : Compatible(c.procs) /\ Len(c.edges) >= 2 }

GatingBad == { MkCfg(<<[Proc("a") EXCEPT !.badWorkdir = TRUE], Proc("b")>>, {Edge("b", "a", c)}, FALSE) : c \in Conds }

GatingConfigs == { c \in Gating2 \cup GatingBad : Compatible(c.procs) }
Gating3Configs == Gating3

\* ---- restart: one process, every policy x max_restarts, optional dependent
RestartConfigs ==
  { MkCfg(<<[Proc("a") EXCEPT !.policy = pol, !.maxRestarts = mx, !.backoff = bo]>>, {}, FALSE) :
      pol \in {"no", "always", "on_failure", "exit_on_failure"}, mx \in {0, 1}, bo \in {0, 2} }

\* ---- shutdown: chain / fan-in / fan-out, ordered or not
ShapeEdges == { {Edge("b", "a", "process_started"), Edge("c", "b", "process_started")},
                {Edge("b", "a", "process_started"), Edge("c", "a", "process_started")},
                {Edge("c", "a", "process_started"), Edge("c", "b", "process_completed")},
                {Edge("b", "a", "process_log_ready")} }
ShutdownConfigs ==
  { MkCfg(<<Proc("a"), Proc("b"), Proc("c")>>, es, ord) : es \in ShapeEdges, ord \in BOOLEAN }
Shutdown2Configs ==
  { MkCfg(<<[Proc("a") EXCEPT !.policy = pol], [Proc("b") EXCEPT !.exitOnEnd = xe]>>,
          IF c = "none" THEN {} ELSE {Edge("b", "a", c)}, ord) :
      pol \in {"no", "always", "exit_on_failure"}, xe \in BOOLEAN, c \in {"none", "process_started", "process_completed"}, ord \in BOOLEAN }

\* ---- manual: one process (optionally pending on a dependency), API calls
ManualConfigs ==
  { MkCfg(<<[Proc("a") EXCEPT !.policy = pol]>>, {}, FALSE) : pol \in {"no", "always"} }
  \cup { MkCfg(<<Proc("z"), Proc("a")>>, {Edge("a", "z", "process_completed")}, FALSE) }

\* ---- health: dependency with readiness probe, thresholds, policies
HealthConfigs ==
  { MkCfg(<<[Proc("a") EXCEPT !.policy = pol, !.hasReadyProbe = TRUE, !.threshold = th], Proc("b")>>,
          {Edge("b", "a", "process_healthy")}, FALSE) :
      pol \in {"no", "always", "on_failure"}, th \in {1, 2} }

\* ---- daemon: launcher + liveness probe, thresholds, policies, optional bystander
DaemonConfigs ==
  { MkCfg(<<[Proc("a") EXCEPT !.policy = pol, !.daemon = TRUE, !.hasLiveProbe = TRUE, !.threshold = th, !.maxRestarts = mx]>>, {}, FALSE) :
      pol \in {"no", "always", "on_failure"}, th \in {1, 2}, mx \in {0, 1} }
  \cup { MkCfg(<<[Proc("a") EXCEPT !.policy = "always", !.daemon = TRUE, !.hasLiveProbe = TRUE], Proc("b")>>,
                {Edge("b", "a", "process_started")}, ord) : ord \in BOOLEAN }

Codes01 == {0, 1}
NoOps == {}
ShutOnly == {"shutdown"}
StopStartRestart == {"start", "stop", "restart"}
AllOps == {"start", "stop", "restart", "shutdown"}
StopRestartShut == {"stop", "restart", "shutdown"}
=============================================================================
