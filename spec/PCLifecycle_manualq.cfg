SPECIFICATION Spec
CONSTANTS
  Configs <- ManualConfigs
  Codes <- Codes01
  MaxLaunch = 1
  MaxInst = 2
  MaxApi = 2
  ApiOps <- StopStartRestart
  SerializeApi = TRUE
  StartFailures = FALSE
INVARIANTS AllInvs AtRestOK
CHECK_DEADLOCK FALSE
