------------------------------- MODULE PCScale -------------------------------
(***************************************************************************)
(* Scaling (C13) and live project update (C14).  Each record holds the     *)
(* projection of the real runner before and after one ScaleProcess /       *)
(* UpdateProject call: the four name-keyed maps, per replica its name,     *)
(* number, count, rendered fields, state and log reachability, and - as    *)
(* ground truth - every scripted command with its serial, the replica it   *)
(* was launched for, whether it is alive / was signalled, and global       *)
(* launch / exit sequence numbers.                                         *)
(***************************************************************************)
EXTENDS Integers, Sequences, FiniteSets, TLC

RangeS(f) == { f[x] : x \in DOMAIN f }
HasK(s, k) == \E x \in RangeS(s) : x[1] = k
ValK(s, k) == (CHOOSE x \in RangeS(s) : x[1] = k)[2]
RECURSIVE CatAll(_)
CatAll(ss) == IF ss = <<>> THEN "" ELSE Head(ss) \o CatAll(Tail(ss))

WidthS(n) == IF n < 10 THEN 1 ELSE IF n < 100 THEN 2 ELSE IF n < 1000 THEN 3 ELSE 4
PadS(r, w) == LET s == ToString(r) IN
              IF w = 1 THEN s
              ELSE IF w = 2 THEN (IF r < 10 THEN "0" \o s ELSE s)
              ELSE IF w = 3 THEN (IF r < 10 THEN "00" \o s ELSE IF r < 100 THEN "0" \o s ELSE s)
              ELSE (IF r < 10 THEN "000" \o s ELSE IF r < 100 THEN "00" \o s ELSE IF r < 1000 THEN "0" \o s ELSE s)
RepNameS(base, r, n) == IF n <= 1 THEN base ELSE base \o "-" \o PadS(r, WidthS(n))

VarS(e, r, x) == IF x = "PC_REPLICA_NUM" THEN ToString(r) ELSE IF HasK(e.gvars, x) THEN ValK(e.gvars, x) ELSE "<no value>"
RenderS(e, r, toks) == CatAll([k \in DOMAIN toks |-> IF toks[k][1] = "lit" THEN toks[k][2] ELSE VarS(e, r, toks[k][2])])

Procs(s) == RangeS(s.procs)
Cmds(s) == RangeS(s.cmds)
AliveCmds(s) == { c \in Cmds(s) : c.alive }
Serials(s) == { c.serial : c \in Cmds(s) }
CmdBySerial(s, n) == CHOOSE c \in Cmds(s) : c.serial = n
WProcs(s, b) == { p \in Procs(s) : p.base = b }
Min2(a, b) == IF a <= b THEN a ELSE b

(***************************************************************************)
(* C13                                                                     *)
(***************************************************************************)
\* the request names a process by one of its current (replica) names; addressing a replicated process by its bare
\* base name is accepted either way
KnownName(e) == e.name \in RangeS(e.before.keys.conf)
BaseOnly(e)  == e.name = e.base /\ ~KnownName(e)
ValidReq(e) == e.n >= 1 /\ KnownName(e)
Done13(e) == ~e.err /\ e.n >= 1 /\ (KnownName(e) \/ BaseOnly(e))

C13_RejectsInvalid(e) == (e.n < 1 \/ (~KnownName(e) /\ ~BaseOnly(e))) => e.err
C13_AcceptsValid(e)   == ValidReq(e) => ~e.err
C13_ExactlyN(e) ==
  Done13(e) =>
    /\ ~e.after.stateErr
    /\ { p.rname : p \in WProcs(e.after, e.base) } = { RepNameS(e.base, r, e.n) : r \in 0..(e.n - 1) }
    /\ Cardinality(WProcs(e.after, e.base)) = e.n
    /\ \A p \in WProcs(e.after, e.base) :
         /\ p.rname = RepNameS(e.base, p.num, e.n) /\ p.confRname = p.rname
         /\ p.replicas = e.n /\ p.hasState /\ p.logOk
MapsAgree(s) ==
  /\ RangeS(s.keys.conf) = RangeS(s.keys.states)
  /\ RangeS(s.keys.conf) = RangeS(s.keys.logs)
  /\ RangeS(s.keys.running) \subseteq RangeS(s.keys.conf)
  /\ \A p \in Procs(s) : p.hasState /\ p.logOk
C13_FourMapsAgree(e) == MapsAgree(e.after)
C13_SameAsFreshLoad(e) ==
  Done13(e) =>
    /\ \A p \in WProcs(e.after, e.base) :
         \E f \in RangeS(e.fresh) : f.rname = p.rname /\ f.num = p.num /\ f.replicas = p.replicas /\ f.fields = p.fields
    /\ \A f \in { g \in RangeS(e.fresh) : g.base = e.base } : \E p \in WProcs(e.after, e.base) : p.rname = f.rname
C13_RenderedForOwnReplica(e) ==
  Done13(e) =>
    \A p \in WProcs(e.after, e.base) : \A t \in RangeS(e.tokens) : ValK(p.fields, t[1]) = RenderS(e, p.num, t[2])
Survivor(e, c) == c.base # e.base \/ c.num < e.n
C13_SurvivorsUndisturbed(e) ==
  Done13(e) =>
    /\ \A c \in AliveCmds(e.before) : Survivor(e, c) =>
          \E c2 \in Cmds(e.after) : c2.serial = c.serial /\ c2.alive /\ c2.signalled = c.signalled
    \* nothing is (re)launched for replicas that existed before, nor for other processes
    /\ \A c2 \in Cmds(e.after) : c2.serial \notin Serials(e.before) =>
          (c2.base = e.base /\ c2.num >= Min2(e.cur, e.n))
    \* the reported state of the survivors is kept
    /\ \A p \in Procs(e.before) : (p.base # e.base \/ p.num < e.n) =>
          \E q \in Procs(e.after) : q.base = p.base /\ q.num = p.num /\ q.status = p.status
C13_RemovedTerminated(e) ==
  Done13(e) => \A c \in AliveCmds(e.after) : c.base = e.base => c.num < e.n
\* added replicas are launched - unless the process waits for a dependency that has not completed (C01 for scaled
\* replicas): then they are pending and nothing of the process has been launched
C13_AddedLaunched(e) ==
  Done13(e) =>
     IF e.gated
     THEN /\ \A r \in e.cur..(e.n - 1) : \E p \in Procs(e.after) : p.base = e.base /\ p.num = r /\ p.status = "Pending"
          /\ { c \in Cmds(e.after) : c.base = e.base } = {}
     ELSE \A r \in e.cur..(e.n - 1) : \E c \in AliveCmds(e.after) : c.base = e.base /\ c.num = r
\* once the dependency has completed every current replica is launched, and only after that completion
C13_ReleasedAfterDependency(e) ==
  LET gates == { c \in Cmds(e.final) : c.base = e.gate } IN
  /\ gates # {} /\ \A g \in gates : ~g.alive
  /\ \A r \in 0..(e.n - 1) : \E c \in AliveCmds(e.final) : c.base = e.base /\ c.num = r
  /\ \A c \in Cmds(e.final) : c.base = e.base => \A g \in gates : c.launchSeq > g.exitSeq
C13_RejectsLeaveStateUnchanged(e) ==
  e.err => /\ e.after.procs = e.before.procs /\ e.after.keys = e.before.keys
           /\ { c.serial : c \in AliveCmds(e.after) } = { c.serial : c \in AliveCmds(e.before) }
           /\ \A c \in AliveCmds(e.after) : c.signalled = CmdBySerial(e.before, c.serial).signalled

ScaleNames == {"C13_RejectsInvalid", "C13_AcceptsValid", "C13_ExactlyN", "C13_FourMapsAgree", "C13_SameAsFreshLoad",
               "C13_RenderedForOwnReplica", "C13_SurvivorsUndisturbed", "C13_RemovedTerminated", "C13_AddedLaunched",
               "C13_RejectsLeaveStateUnchanged"}
ScaleViolated(e) ==
  { n \in ScaleNames :
      ~(CASE n = "C13_RejectsInvalid" -> C13_RejectsInvalid(e)
          [] n = "C13_AcceptsValid" -> C13_AcceptsValid(e)
          [] n = "C13_ExactlyN" -> C13_ExactlyN(e)
          [] n = "C13_FourMapsAgree" -> C13_FourMapsAgree(e)
          [] n = "C13_SameAsFreshLoad" -> C13_SameAsFreshLoad(e)
          [] n = "C13_RenderedForOwnReplica" -> C13_RenderedForOwnReplica(e)
          [] n = "C13_SurvivorsUndisturbed" -> C13_SurvivorsUndisturbed(e)
          [] n = "C13_RemovedTerminated" -> C13_RemovedTerminated(e)
          [] n = "C13_AddedLaunched" -> C13_AddedLaunched(e)
          [] n = "C13_RejectsLeaveStateUnchanged" -> C13_RejectsLeaveStateUnchanged(e)) }

(***************************************************************************)
(* C14                                                                     *)
(***************************************************************************)
Ch(e, k) == { c \in RangeS(e.changes) : c.kind = k }
AliveOf(s, name) == { c \in AliveCmds(s) : c.rname = name }    \* by replica name (as launched)
NewCmdsOf(e, name) == { c \in Cmds(e.after) : c.rname = name /\ c.serial \notin Serials(e.before) }
ExpectOf(e, name) == CHOOSE x \in RangeS(e.expect) : x.name = name
StatusOf(e, name) == IF HasK(e.status, name) THEN ValK(e.status, name) ELSE "<none>"

C14_SetEqualsNew(e) ==
  ~e.err => /\ { p.rname : p \in Procs(e.after) } = RangeS(e.newNames)
            /\ ~e.after.stateErr /\ MapsAgree(e.after)
Crasher(e, name) == name \in RangeS(e.crashers)    \* crash-looping processes change commands all the time
C14_UnchangedKeepInstance(e) ==
  ~e.err => \A ch \in { x \in Ch(e, "same") : ~Crasher(e, x.name) } :
     /\ \A c \in AliveOf(e.before, ch.name) :
          \E c2 \in Cmds(e.after) : c2.serial = c.serial /\ c2.alive /\ c2.signalled = c.signalled
     /\ NewCmdsOf(e, ch.name) = {}
C14_ChangedReplaced(e) ==
  ~e.err => \A ch \in { x \in Ch(e, "changed") : ~Crasher(e, x.name) } :
     /\ \A c \in AliveOf(e.before, ch.name) :
          LET c2 == CmdBySerial(e.after, c.serial) IN
            /\ ~c2.alive /\ c2.signalled
            /\ \A nw \in NewCmdsOf(e, ch.name) : nw.launchSeq > c2.exitSeq
     /\ IF ch.gated
        THEN NewCmdsOf(e, ch.name) = {}      \* the new instance waits for a dependency that has not completed
        ELSE /\ \E nw \in NewCmdsOf(e, ch.name) :
                  /\ nw.alive
                  /\ nw.argv = ExpectOf(e, ch.name).argv
                  /\ nw.dir = ExpectOf(e, ch.name).dir
                  /\ ValK(nw.env, "UW") = ExpectOf(e, ch.name).uw
             /\ Cardinality(NewCmdsOf(e, ch.name)) = 1
C14_RemovedGone(e) ==
  ~e.err => \A ch \in Ch(e, "removed") :
     /\ AliveOf(e.after, ch.name) = {} /\ ch.name \notin { p.rname : p \in Procs(e.after) }
\* also later on: nothing of a removed process is launched again, and whatever is launched for a changed process
\* carries the new configuration (an instance in its restart back-off or still pending must not survive the update)
C14_NoOldConfigLaunchedLater(e) ==
  ~e.err =>
    /\ \A ch \in Ch(e, "removed") :
          /\ { c \in Cmds(e.later) : c.rname = ch.name /\ c.serial \notin Serials(e.after) } = {}
          /\ { c \in AliveCmds(e.later) : c.rname = ch.name } = {}
    /\ \A ch \in Ch(e, "changed") :
          \A c \in { x \in Cmds(e.later) : x.rname = ch.name /\ (x.serial \notin Serials(e.after) \/ x.alive) } :
             c.argv = ExpectOf(e, ch.name).argv /\ ValK(c.env, "UW") = ExpectOf(e, ch.name).uw

\* added processes are launched - unless they wait for a dependency that has not completed (C01 for added processes)
C14_AddedLaunched(e) ==
  ~e.err => \A ch \in Ch(e, "added") :
     /\ ch.name \in { p.rname : p \in Procs(e.after) }
     /\ IF ch.gated
        THEN /\ { c \in Cmds(e.after) : c.rname = ch.name } = {} /\ { c \in Cmds(e.later) : c.rname = ch.name } = {}
             /\ \A p \in Procs(e.later) : p.rname = ch.name => p.status = "Pending"
        ELSE AliveOf(e.after, ch.name) # {}
C14_StatusMapExact(e) ==
  ~e.err =>
     /\ \A ch \in Ch(e, "added") : StatusOf(e, ch.name) = "added"
     /\ \A ch \in Ch(e, "removed") : StatusOf(e, ch.name) = "removed"
     /\ \A ch \in Ch(e, "changed") : StatusOf(e, ch.name) = "updated"
     /\ \A ch \in Ch(e, "same") : StatusOf(e, ch.name) = "<none>"
     /\ \A ch \in Ch(e, "cosmetic") : StatusOf(e, ch.name) \in {"<none>", "updated"}
     /\ { x[1] : x \in RangeS(e.status) } \subseteq { ch.name : ch \in RangeS(e.changes) }
C14_ValidUpdateSucceeds(e) == ~e.err

UpdateNames == {"C14_SetEqualsNew", "C14_UnchangedKeepInstance", "C14_ChangedReplaced", "C14_RemovedGone",
                "C14_AddedLaunched", "C14_StatusMapExact", "C14_ValidUpdateSucceeds", "C14_NoOldConfigLaunchedLater"}
UpdateViolated(e) ==
  { n \in UpdateNames :
      ~(CASE n = "C14_SetEqualsNew" -> C14_SetEqualsNew(e)
          [] n = "C14_UnchangedKeepInstance" -> C14_UnchangedKeepInstance(e)
          [] n = "C14_ChangedReplaced" -> C14_ChangedReplaced(e)
          [] n = "C14_RemovedGone" -> C14_RemovedGone(e)
          [] n = "C14_AddedLaunched" -> C14_AddedLaunched(e)
          [] n = "C14_StatusMapExact" -> C14_StatusMapExact(e)
          [] n = "C14_ValidUpdateSucceeds" -> C14_ValidUpdateSucceeds(e)
          [] n = "C14_NoOldConfigLaunchedLater" -> C14_NoOldConfigLaunchedLater(e)) }

(***************************************************************************)
(* C12 while a removal is in flight (records of kind "ordshut"): a         *)
(* dependent that was alive when the ordered shutdown began - also one     *)
(* whose configuration entry a scale-down / update has already deleted -   *)
(* has exited before the process it depends on is signalled.               *)
(***************************************************************************)
OrdCmds(e) == RangeS(e.cmds)
C12_DependentsFirstDuringRemoval(e) ==
  \A x \in RangeS(e.edges) :
    \A cp \in { c \in OrdCmds(e) : c.base = x[1] } :
      \A ck \in { c \in OrdCmds(e) : c.base = x[2] /\ c.sigSeq > e.shutSeq } :
         (cp.launchSeq < e.shutSeq /\ (cp.exitSeq = 0 \/ cp.exitSeq > e.shutSeq))
            => (cp.exitSeq > 0 /\ cp.exitSeq < ck.sigSeq)
\* the shutdown returns; Run() returns too unless the removal request (an update replacing the process) has
\* launched its replacement after the shutdown began - an explicit request, which keeps the project alive
C12_ShutdownCompletesDuringRemoval(e) ==
  e.shutReturned /\ (e.runReturned \/ \E c \in OrdCmds(e) : c.launchSeq > e.shutSeq)
OrdShutViolated(e) ==
  { n \in {"C12_DependentsFirstDuringRemoval", "C12_ShutdownCompletesDuringRemoval"} :
      ~(CASE n = "C12_DependentsFirstDuringRemoval" -> C12_DependentsFirstDuringRemoval(e)
          [] n = "C12_ShutdownCompletesDuringRemoval" -> C12_ShutdownCompletesDuringRemoval(e)) }
OrdShutDetail(e) == [mode |-> e.mode, replicas |-> e.replicas, shutSeq |-> e.shutSeq, shutReturned |-> e.shutReturned, runReturned |-> e.runReturned,
                     cmds |-> { <<c.rname, c.launchSeq, c.sigSeq, c.exitSeq>> : c \in OrdCmds(e) }]

ScaleGateViolated(e) == IF C13_ReleasedAfterDependency(e) THEN {} ELSE {"C13_ReleasedAfterDependency"}
ScaleDetail(e) ==
  IF e.kind = "scale" THEN [name |-> e.name, n |-> e.n, cur |-> e.cur, err |-> e.err, someFinished |-> e.someFinished, gated |-> e.gated]
  ELSE IF e.kind = "scalegate" THEN [n |-> e.n, cmds |-> { <<c.base, c.num, c.alive, c.launchSeq, c.exitSeq>> : c \in Cmds(e.final) }]
  ELSE [err |-> e.err, kinds |-> { <<c.kind, c.fields, c.gated>> : c \in RangeS(e.changes) }]
=============================================================================
