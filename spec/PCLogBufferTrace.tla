------------------------- MODULE PCLogBufferTrace -------------------------
(***************************************************************************)
(* Record validation for C18: replays operation histories recorded from    *)
(* the real pclog.ProcessLogBuffer (many histories concatenated, each      *)
(* starting with a `new` record) and evaluates the C18 predicates on every *)
(* record.  Lines are numbered 1..w in the order they were written.        *)
(* Deliveries to observers (`recv`) and `sub` records are logged inside    *)
(* the buffer's mutex (from the observer callbacks), so their order is the *)
(* linearization order; wbegin / wend bracket one Write call.              *)
(***************************************************************************)
EXTENDS Integers, Sequences, FiniteSets, TLC, Json

CONSTANT TraceFile
Trace == ndJsonDeserialize(TraceFile)

LB == INSTANCE PCLogBuffer WITH Size <- 0, Slack <- 0, MaxWrites <- 0, Observers <- {}, Tails <- {},
                                buf <- <<>>, written <- 0, subs <- {}, inflight <- 0, todo <- {}, got <- <<>>

VARIABLES T, l
vars == <<T, l>>

Range(f) == { f[x] : x \in DOMAIN f }
AllW(n) == [k \in 1..n |-> k]

NewT(e) == [id |-> e.id, size |-> e.size, slack |-> e.slack, w |-> 0, subs |-> {}, leaving |-> {}, inflight |-> 0,
            pending |-> {}, optional |-> {}, bad |-> {}, last |-> e]

\* legal tails handed to a new follower: a suffix of the written lines whose length is min(tail, L), L legal
SubOK(got, tail, w, size, slack) ==
  /\ LB!IsSuffixOf(got, AllW(w))
  /\ \E L \in 0..(size + slack) : LB!LegalLen(L, w, size, slack) /\ Len(got) = LB!Min(LB!MaxI(tail, 0), L)

Step(t, e) ==
  CASE e.op = "wbegin" ->
         [t EXCEPT !.w = @ + 1, !.inflight = e.x, !.pending = t.subs \ t.leaving, !.optional = t.subs \cap t.leaving,
                   !.bad = IF e.x # t.w + 1 \/ t.inflight # 0 THEN {"C18_HarnessOrder"} ELSE {}, !.last = e]
    [] e.op = "recv" ->
         LET ok == t.inflight = e.x /\ (e.o \in t.pending \/ e.o \in t.optional) IN
         [t EXCEPT !.pending = @ \ {e.o}, !.optional = @ \ {e.o},
                   !.bad = IF ok THEN {} ELSE {"C18_FollowerNoGapNoDup"}, !.last = e]
    [] e.op = "wend" ->
         [t EXCEPT !.inflight = 0, !.optional = {}, !.pending = {},
                   !.bad = IF t.pending = {} THEN {} ELSE {"C18_FollowerNoGapNoDup"}, !.last = e]
    [] e.op = "sub" ->
         IF t.inflight = 0
         THEN [t EXCEPT !.subs = @ \cup {e.o},
                        !.bad = IF SubOK(e.got, e.tail, t.w, t.size, t.slack) THEN {} ELSE {"C18_FollowerNoGapNoDup"},
                        !.last = e]
         ELSE \* a Write call is in progress: the subscription took effect before or after its critical section
              LET after  == SubOK(e.got, e.tail, t.w, t.size, t.slack)
                  before == SubOK(e.got, e.tail, t.w - 1, t.size, t.slack)
                  sure   == Len(e.got) > 0
                  hasX   == sure /\ e.got[Len(e.got)] = t.inflight
              IN [t EXCEPT !.subs = @ \cup {e.o},
                           !.pending  = IF sure /\ ~hasX THEN @ \cup {e.o} ELSE @,
                           !.optional = IF ~sure THEN @ \cup {e.o} ELSE @,
                           !.bad = IF (hasX /\ after) \/ (~hasX /\ (before \/ after)) THEN {} ELSE {"C18_FollowerNoGapNoDup"},
                           !.last = e]
    [] e.op = "unsubbegin" ->   \* UnSubscribe was called; it takes effect somewhere before the `unsub` record
         [t EXCEPT !.leaving = @ \cup {e.o},
                   !.optional = IF e.o \in t.pending THEN @ \cup {e.o} ELSE @,
                   !.pending = @ \ {e.o}, !.bad = {}, !.last = e]
    [] e.op = "unsub" ->
         [t EXCEPT !.subs = @ \ {e.o}, !.leaving = @ \ {e.o}, !.pending = @ \ {e.o}, !.optional = @ \ {e.o},
                   !.bad = {}, !.last = e]
    [] e.op = "close" ->
         [t EXCEPT !.subs = {}, !.leaving = {}, !.pending = {}, !.optional = {}, !.bad = {}, !.last = e]
    [] e.op = "range" ->
         LET legal == LB!LegalLen(e.len, t.w, t.size, t.slack)
             cur == LB!Suffix(AllW(t.w), e.len)
             ok == ~e.panic /\ e.res = LB!Window(cur, e.off, e.lim)
         IN [t EXCEPT !.bad = (IF legal THEN {} ELSE {"C18_Recent"}) \cup (IF ok THEN {} ELSE {"C18_RangeWindow"}),
                      !.last = e]
    \* windows handed out earlier were re-read after further writes and trims: they are values and must not change
    [] e.op = "winstable" ->
         [t EXCEPT !.bad = IF e.changed = 0 THEN {} ELSE {"C18_RangeWindow"}, !.last = e]
    [] e.op = "stuck" ->
         [t EXCEPT !.bad = {"C18_StalledFollowerDoesNotBlock"}, !.last = e]
    [] OTHER -> [t EXCEPT !.bad = {}, !.last = e]

Init == T = [id |-> "none", bad |-> {}] /\ l = 1

Next ==
  /\ l <= Len(Trace)
  /\ LET e == Trace[l]
         t2 == IF e.op = "new" THEN NewT(e) ELSE Step(T, e)
     IN /\ T' = t2
        /\ IF t2.bad = {} THEN TRUE
           ELSE PrintT("VIOL ## " \o t2.id \o " ## " \o ToString(l) \o " ## " \o ToString(t2.bad) \o " ## "
                       \o ToString([op |-> e.op, w |-> t2.w, size |-> t2.size, inflight |-> t2.inflight]) \o " ## " \o ToString([rec |-> l]))
  /\ l' = l + 1

Spec == Init /\ [][Next]_vars
=============================================================================
