------------------------- MODULE PCLifecycleTrace -------------------------
(***************************************************************************)
(* Trace validation (code -> model).  Reads the ndjson event stream        *)
(* recorded from the real ProjectRunner (many scenarios concatenated; each *)
(* starts with a Config record) and replays it through PCEvents!Apply.     *)
(* After EVERY event every property predicate of PCEvents is evaluated on  *)
(* the new state; a false predicate is reported as a line                  *)
(*    <<"VIOL", scenario id, line, {invariant names}, summary of event>>   *)
(* and the replay continues, so one run reports every violation of every   *)
(* scenario.  Coverage counters (which antecedents actually fired) are     *)
(* printed at the end to make vacuity visible.                             *)
(***************************************************************************)
EXTENDS PCEvents, Json

CONSTANT TraceFile

Trace == ndJsonDeserialize(TraceFile)

VARIABLES S, l, sid, cov

vars == <<S, l, sid, cov>>

CovKeys == {"scenarios", "launch", "launchWithDeps", "relaunch", "shutdownReturn", "signalOrdered",
            "signalOrderedWithDependents", "observeEnd", "runReturn", "runReturnTrig", "apiEnd", "stateEv",
            "doneEv", "atRest", "stuck", "backoff", "skipped", "readyState", "fatalProbe", "kill"}

CovInc(c, e, S2) ==
  LET inc(k, b) == IF b THEN 1 ELSE 0
      L2 == S2.last
  IN [k \in CovKeys |->
        c[k] + CASE k = "scenarios" -> inc(k, e.ev = "Config")
                 [] k = "launch" -> inc(k, L2.ev = "Launch")
                 [] k = "launchWithDeps" -> inc(k, L2.ev = "Launch" /\ DepsOf(S2.cfg, L2.p) # {})
                 [] k = "relaunch" -> inc(k, L2.ev = "Launch" /\ L2.relaunch)
                 [] k = "shutdownReturn" -> inc(k, L2.ev = "ShutdownReturn")
                 [] k = "signalOrdered" -> inc(k, L2.ev = "Signal" /\ L2.inOrdered)
                 [] k = "signalOrderedWithDependents" ->
                       inc(k, L2.ev = "Signal" /\ L2.inOrdered
                              /\ \E q \in S2.shutOrder : \E d \in DepsOf(S2.cfg, q) : d.k = L2.p)
                 [] k = "observeEnd" -> inc(k, L2.ev = "ObserveEnd")
                 [] k = "runReturn" -> inc(k, L2.ev = "RunReturn")
                 [] k = "runReturnTrig" -> inc(k, L2.ev = "RunReturn" /\ (S2.trig # {} \/ S2.trigAny \/ S2.pend # {}))
                 [] k = "apiEnd" -> inc(k, L2.ev = "ApiEnd")
                 [] k = "stateEv" -> inc(k, L2.ev = "State")
                 [] k = "doneEv" -> inc(k, L2.ev = "Done")
                 [] k = "atRest" -> inc(k, L2.ev = "End" /\ L2.atRest)
                 [] k = "stuck" -> inc(k, L2.ev = "Stuck")
                 [] k = "backoff" -> inc(k, L2.ev = "Backoff")
                 [] k = "skipped" -> inc(k, L2.ev = "Done" /\ L2.status = "Skipped")
                 [] k = "readyState" -> inc(k, L2.ev = "State" /\ L2.health = "Ready")
                 [] k = "fatalProbe" -> inc(k, e.ev = "Probe" /\ e.fatal)
                 [] k = "kill" -> inc(k, L2.ev = "Signal" /\ L2.kill)
                 [] OTHER -> 0]

Init ==
  /\ S = [last |-> [ev |-> "Boot"]]
  /\ l = 1
  /\ sid = "none"
  /\ cov = [k \in CovKeys |-> 0]

Step ==
  /\ l <= Len(Trace)
  /\ LET e  == Trace[l]
         S2 == IF e.ev = "Config" THEN InitS(e.cfg) ELSE Apply(S, e)
         id == IF e.ev = "Config" THEN e.id ELSE sid
         v  == Violated(S2)
         c2 == CovInc(cov, e, S2)
     IN /\ S' = S2
        /\ sid' = id
        /\ cov' = c2
        /\ IF v = {} THEN TRUE
           ELSE PrintT("VIOL ## " \o id \o " ## " \o ToString(l) \o " ## " \o ToString(v) \o " ## " \o ToString(S2.last) \o " ## " \o ToString(S2.ctx))
        /\ IF l < Len(Trace) THEN TRUE ELSE PrintT("COVERAGE ## " \o ToString(c2))
  /\ l' = l + 1

Next == Step
Spec == Init /\ [][Next]_vars

\* every line of the file was consumed
AllConsumed == TLCGet("stats").diameter = Len(Trace) + 1
=============================================================================
