SPECIFICATION Spec
CONSTANTS
  Configs <- ShutdownConfigs
  Codes <- Codes01
  MaxLaunch = 1
  MaxInst = 3
  MaxApi = 1
  ApiOps <- ShutOnly
  SerializeApi = TRUE
  StartFailures = FALSE
INVARIANTS AllInvs AtRestOK
CHECK_DEADLOCK FALSE
