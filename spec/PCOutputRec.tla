---------------------------- MODULE PCOutputRec ----------------------------
(***************************************************************************)
(* Output capture (C11).                                                   *)
(*                                                                         *)
(* Design model: a command writes lines to two pipes (stdout, stderr) and  *)
(* exits; one reader goroutine per pipe moves lines into the log; the run  *)
(* loop waits for both readers to reach EOF (waitForStdOutErr) and only    *)
(* then calls Wait(), which closes the read ends - lines still in a pipe   *)
(* at that moment are lost.  TLC explores every interleaving.              *)
(*                                                                         *)
(* Record predicates: one `output` record per run of a real command        *)
(* through the real pipeline; every line carries a unique id, so the       *)
(* captured log can be compared with what was written.                     *)
(***************************************************************************)
EXTENDS Integers, Sequences, FiniteSets, TLC

RangeO(f) == { f[x] : x \in DOMAIN f }
FilterSeq(s, P(_)) == SelectSeq(s, P)
IsSuffix(r, s) == Len(r) <= Len(s) /\ r = SubSeq(s, Len(s) - Len(r) + 1, Len(s))

(***************************************************************************)
(* record predicates                                                       *)
(***************************************************************************)
ItemsOf(e, s) == FilterSeq(e.script, LAMBDA it : it.s = s)
AsPairs(items) == [k \in DOMAIN items |-> <<items[k].id, items[k].len>>]
GotOf(seq, s)  == LET f == FilterSeq(seq, LAMBDA x : x[3] = s) IN [k \in DOMAIN f |-> <<f[k][1], f[k][2]>>]
TotalLines(e) == Len(e.script)

C11_AllLinesOnceInOrder(e) ==
  IF TotalLines(e) + e.junk <= e.logLength
  THEN \A s \in {"o", "e"} : GotOf(e.buffer, s) = AsPairs(ItemsOf(e, s))
  ELSE \* more was written than the window keeps: what is there is the most recent part, in order
       \A s \in {"o", "e"} : IsSuffix(GotOf(e.buffer, s), AsPairs(ItemsOf(e, s)))
C11_FileComplete(e) ==
  e.hasFile => \A s \in {"o", "e"} : GotOf(e.file, s) = AsPairs(ItemsOf(e, s))
C11_RunCompleted(e) == ~e.stuck

OutputViolated(e) ==
  { n \in {"C11_AllLinesOnceInOrder", "C11_FileComplete", "C11_RunCompleted"} :
      ~(CASE n = "C11_AllLinesOnceInOrder" -> C11_AllLinesOnceInOrder(e)
          [] n = "C11_FileComplete" -> C11_FileComplete(e)
          [] n = "C11_RunCompleted" -> C11_RunCompleted(e)) }
OutputDetail(e) == [nlines |-> Len(e.script), lastNoNL |-> e.lastNoNL, attempts |-> e.attempts, logger |-> e.logger,
                    nbuf |-> Len(e.buffer), nfile |-> Len(e.file), maxLen |-> e.maxLen]
=============================================================================
