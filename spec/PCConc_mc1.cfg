SPECIFICATION LSpec
CONSTANT Threads <- MCThreads1
INVARIANTS C20_Design_LockOwner
CHECK_DEADLOCK TRUE
