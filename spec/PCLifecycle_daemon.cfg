SPECIFICATION Spec
CONSTANTS
  Configs <- DaemonConfigs
  Codes <- Codes01
  MaxLaunch = 3
  MaxInst = 2
  MaxApi = 0
  ApiOps <- NoOps
  SerializeApi = TRUE
  StartFailures = FALSE
INVARIANTS AllInvs AtRestOK
CHECK_DEADLOCK FALSE
