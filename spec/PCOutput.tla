------------------------------ MODULE PCOutput ------------------------------
(***************************************************************************)
(* Output capture (C11).                                                   *)
(*                                                                         *)
(* Design model: a command writes lines to two pipes (stdout, stderr) and  *)
(* exits; one reader goroutine per pipe moves lines into the log; the run  *)
(* loop waits for both readers to reach EOF (waitForStdOutErr) and only    *)
(* then calls Wait(), which closes the read ends - lines still in a pipe   *)
(* at that moment are lost.  TLC explores every interleaving.              *)
(*                                                                         *)
(* Record predicates: one `output` record per run of a real command        *)
(* through the real pipeline; every line carries a unique id, so the       *)
(* captured log can be compared with what was written.                     *)
(***************************************************************************)
EXTENDS Integers, Sequences, FiniteSets, TLC

RangeO(f) == { f[x] : x \in DOMAIN f }
FilterSeq(s, P(_)) == SelectSeq(s, P)
IsSuffix(r, s) == Len(r) <= Len(s) /\ r = SubSeq(s, Len(s) - Len(r) + 1, Len(s))

(***************************************************************************)
(* design model                                                            *)
(***************************************************************************)
CONSTANTS Streams, MaxLines, WaitFor      \* WaitFor: the streams waitForStdOutErr waits for (the code: both)

VARIABLES towrite,   \* stream -> number of lines the command still writes
          pipe,      \* stream -> sequence of lines in the pipe
          written,   \* stream -> number of lines written so far
          logd,      \* sequence of <<stream, n>> captured in the log
          exited,    \* the command has exited (its write ends are closed)
          eof,       \* stream -> the reader has seen EOF
          closedR,   \* Wait() has closed the read ends
          pcRun      \* run loop: "waitstd" | "wait" | "reaped"
ovars == <<towrite, pipe, written, logd, exited, eof, closedR, pcRun>>

OInit == /\ towrite \in [Streams -> 0..MaxLines] /\ pipe = [s \in Streams |-> <<>>]
         /\ written = [s \in Streams |-> 0] /\ logd = <<>> /\ exited = FALSE
         /\ eof = [s \in Streams |-> FALSE] /\ closedR = FALSE /\ pcRun = "waitstd"

ProcWrite(s) == /\ ~exited /\ towrite[s] > 0
                /\ towrite' = [towrite EXCEPT ![s] = @ - 1]
                /\ written' = [written EXCEPT ![s] = @ + 1]
                /\ pipe' = [pipe EXCEPT ![s] = Append(@, written[s] + 1)]
                /\ UNCHANGED <<logd, exited, eof, closedR, pcRun>>
ProcExit == /\ ~exited /\ \A s \in Streams : towrite[s] = 0
            /\ exited' = TRUE /\ UNCHANGED <<towrite, pipe, written, logd, eof, closedR, pcRun>>
ReaderTakes(s) == /\ ~eof[s] /\ ~closedR /\ pipe[s] # <<>>
                  /\ logd' = Append(logd, <<s, Head(pipe[s])>>)
                  /\ pipe' = [pipe EXCEPT ![s] = Tail(@)]
                  /\ UNCHANGED <<towrite, written, exited, eof, closedR, pcRun>>
ReaderEOF(s) == /\ ~eof[s] /\ ((exited /\ pipe[s] = <<>>) \/ closedR)
                /\ eof' = [eof EXCEPT ![s] = TRUE]
                /\ UNCHANGED <<towrite, pipe, written, logd, exited, closedR, pcRun>>
WaitStdDone == /\ pcRun = "waitstd" /\ \A s \in WaitFor : eof[s]
               /\ pcRun' = "wait" /\ UNCHANGED <<towrite, pipe, written, logd, exited, eof, closedR>>
Reap == /\ pcRun = "wait" /\ exited          \* Wait() returns once the command has exited; closes the read ends
        /\ pcRun' = "reaped" /\ closedR' = TRUE
        /\ UNCHANGED <<towrite, pipe, written, logd, exited, eof>>
ONext == \/ ProcExit \/ WaitStdDone \/ Reap
         \/ \E s \in Streams : ProcWrite(s) \/ ReaderTakes(s) \/ ReaderEOF(s)
OSpec == OInit /\ [][ONext]_ovars

\* once the run loop has reaped the command, everything written is in the log, once, in per-stream order
C11_Design_AllLinesOnceInOrder ==
  (pcRun = "reaped" /\ \A s \in Streams : eof[s]) =>
     \A s \in Streams :
        FilterSeq(logd, LAMBDA x : x[1] = s) = [k \in 1..written[s] |-> <<s, k>>]

(***************************************************************************)
(* record predicates                                                       *)
(***************************************************************************)
ItemsOf(e, s) == FilterSeq(e.script, LAMBDA it : it.s = s)
AsPairs(items) == [k \in DOMAIN items |-> <<items[k].id, items[k].len>>]
GotOf(seq, s)  == LET f == FilterSeq(seq, LAMBDA x : x[3] = s) IN [k \in DOMAIN f |-> <<f[k][1], f[k][2]>>]
TotalLines(e) == Len(e.script)

C11_AllLinesOnceInOrder(e) ==
  IF TotalLines(e) + e.junk <= e.logLength
  THEN \A s \in {"o", "e"} : GotOf(e.buffer, s) = AsPairs(ItemsOf(e, s))
  ELSE \* more was written than the window keeps: what is there is the most recent part, in order
       \A s \in {"o", "e"} : IsSuffix(GotOf(e.buffer, s), AsPairs(ItemsOf(e, s)))
C11_FileComplete(e) ==
  e.hasFile => \A s \in {"o", "e"} : GotOf(e.file, s) = AsPairs(ItemsOf(e, s))
C11_RunCompleted(e) == ~e.stuck

OutputViolated(e) ==
  { n \in {"C11_AllLinesOnceInOrder", "C11_FileComplete", "C11_RunCompleted"} :
      ~(CASE n = "C11_AllLinesOnceInOrder" -> C11_AllLinesOnceInOrder(e)
          [] n = "C11_FileComplete" -> C11_FileComplete(e)
          [] n = "C11_RunCompleted" -> C11_RunCompleted(e)) }
OutputDetail(e) == [nlines |-> Len(e.script), lastNoNL |-> e.lastNoNL, attempts |-> e.attempts, logger |-> e.logger,
                    nbuf |-> Len(e.buffer), nfile |-> Len(e.file), maxLen |-> e.maxLen]
=============================================================================
