SPECIFICATION Spec
CONSTANTS
  Configs <- HealthConfigs
  Codes <- Codes01
  MaxLaunch = 2
  MaxInst = 2
  MaxApi = 0
  ApiOps <- NoOps
  SerializeApi = TRUE
  StartFailures = FALSE
INVARIANTS AllInvs AtRestOK
CHECK_DEADLOCK FALSE
