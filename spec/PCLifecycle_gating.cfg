SPECIFICATION Spec
CONSTANTS
  Configs <- GatingConfigs
  Codes <- Codes01
  MaxLaunch = 1
  MaxInst = 3
  MaxApi = 0
  ApiOps <- NoOps
  SerializeApi = TRUE
  StartFailures = TRUE
INVARIANTS AllInvs AtRestOK
CHECK_DEADLOCK FALSE
