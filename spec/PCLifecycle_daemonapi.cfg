SPECIFICATION Spec
CONSTANTS
  Configs <- DaemonConfigs
  Codes <- Codes01
  MaxLaunch = 2
  MaxInst = 3
  MaxApi = 1
  ApiOps <- StopRestartShut
  SerializeApi = TRUE
  StartFailures = FALSE
INVARIANTS AllInvs AtRestOK
CHECK_DEADLOCK FALSE
