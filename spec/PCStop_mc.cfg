SPECIFICATION SSpec
CONSTANTS
  Members = {"parent", "child", "grandchild"}
  Signals <- MCSignals
  Timeouts = {0, 1, 2}
  CmdOutcomes = {"none", "ok", "fails"}
INVARIANTS C06_Design_KillNotBeforeTimeout C06_Design_KillOnlyIfCmdFailed C06_Design_OnlyConfiguredSignal C06_Design_ReachableDie
CHECK_DEADLOCK FALSE
