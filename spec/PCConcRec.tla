------------------------------ MODULE PCConcRec ------------------------------
(***************************************************************************)
(* Concurrent API use (C20), the part this family can decide: no crash     *)
(* (panic / fatal runtime error) and no call blocking forever.             *)
(*                                                                         *)
(* Design model: the mutexes of the runner and of a process as explicit    *)
(* variables; every API operation and every process goroutine is a small   *)
(* program of acquire / release / await / set instructions that mirrors    *)
(* the order in which the code takes its locks and waits.  TLC explores    *)
(* all interleavings of a set of threads and reports a deadlock when some  *)
(* thread can never finish.                                                *)
(*                                                                         *)
(* Record predicates: one `conc` record per batch of operations run        *)
(* concurrently against the real runner (in a child process, so that a     *)
(* fatal runtime error is observed as a record, too).                      *)
(***************************************************************************)
EXTENDS Integers, Sequences, FiniteSets, TLC

(***************************************************************************)
(* record predicates                                                       *)
(***************************************************************************)
C20_NoCrash(e) == e.panics = <<>> /\ e.fatal = ""
C20_EveryCallReturns(e) == e.blocked = <<>> /\ ~e.runBlocked
ConcViolated(e) ==
  { n \in {"C20_NoCrash", "C20_EveryCallReturns"} :
      ~(CASE n = "C20_NoCrash" -> C20_NoCrash(e) [] n = "C20_EveryCallReturns" -> C20_EveryCallReturns(e)) }
ConcDetail(e) == [ops |-> e.ops, fatal |-> e.fatal, fatalSite |-> e.fatalSite,
                  panicSites |-> { e.panics[k].site : k \in DOMAIN e.panics }, blocked |-> e.blocked, runBlocked |-> e.runBlocked,
                  blockedSites |-> e.blockedSites]
=============================================================================
