---------------------------- MODULE PCLifecycle ----------------------------
(***************************************************************************)
(* Code-shaped design model of the process-compose supervisor              *)
(* (src/app/process.go, src/app/project_runner.go).                        *)
(*                                                                         *)
(* One action per critical section / check-then-act window of the code.    *)
(* An action is  guard /\ S' = Apply(... Apply(S, e1) ..., en) : it        *)
(* GENERATES the same events the hooks of the real code emit, so           *)
(*   - the properties (the Cnn predicates of PCEvents) are checked by TLC over every       *)
(*     interleaving for small constants, and                               *)
(*   - a behaviour of this model is an event sequence in the vocabulary    *)
(*     of the recorded traces.                                             *)
(* S is the physical state of PCEvents; ctl is the control state of the    *)
(* goroutines (program counters, latches, flags, mutex, wait group).       *)
(* pc values are the gate names of the hooks (run.precheck, run.launch...) *)
(***************************************************************************)
EXTENDS PCEvents

CONSTANTS Configs,      \* set of configuration records (cfg is a state variable)
          Codes,        \* exit codes of spontaneous exits
          MaxLaunch,    \* launches per instance
          MaxInst,      \* instances in total
          MaxApi,       \* API calls in total
          ApiOps,       \* subset of {"start","stop","restart","shutdown"}
          SerializeApi, \* TRUE: at most one start/stop/restart call in flight per process (intended behaviour)
          StartFailures \* TRUE: Start() may fail

VARIABLES S, ctl
vars == <<S, ctl>>

Cfg == S.cfg
N == Names(Cfg)

\* apply a sequence of events; the property predicates look at the last event only, so the sequence stops at
\* the first event after which some predicate is false (the invariant AllInvs then sees exactly that event)
ApplyAll(s, es) ==
  LET RECURSIVE F(_, _)
      F(st, k) == IF k > Len(es) THEN st
                  ELSE LET nx == Apply(st, es[k]) IN
                       IF Violated(nx) # {} THEN nx ELSE F(nx, k + 1)
  IN F(s, 1)

Ev(name, p, i) == [ev |-> name, p |-> p, i |-> i]
StateEv(p, i, status, exit) ==
  [ev |-> "State", p |-> p, i |-> i, status |-> status, exit |-> exit,
   health |-> IF status \in {"Restarting", "Running", "Launching", "Terminating"} THEN "-" ELSE S.health[p],
   restarts |-> S.restarts[p]]

\* run order of Run(): dependencies first (any topological order; one fixed choice per configuration)
RECURSIVE TopoFrom(_, _)
TopoFrom(done, left) ==
  IF left = {} THEN <<>>
  ELSE LET ready == { p \in left : \A d \in DepsOf(Cfg, p) : d.k \in done \/ d.k \notin N }
           p == CHOOSE x \in ready : TRUE
       IN <<p>> \o TopoFrom(done \cup {p}, left \ {p})

InitCtl(cfg) ==
  LET names == { r.name : r \in Range(cfg.procs) } IN
  [ next |-> 1, runq |-> <<>>, runqInit |-> FALSE,
    ipc |-> <<>>, todo |-> <<>>, wait |-> <<>>,
    cancelled |-> <<>>, stopFlag |-> <<>>, started |-> <<>>, done |-> <<>>,
    rlatch |-> <<>>, llatch |-> <<>>, code |-> <<>>, left |-> <<>>, owner |-> <<>>,
    wg |-> 0, mutex |-> <<>>, shutReq |-> FALSE, projExit |-> 0,
    calls |-> <<>>, apiLeft |-> MaxApi, apiNext |-> 1,
    shut |-> [active |-> FALSE], now |-> 0, runDone |-> FALSE, fails |-> [p \in names |-> 0],
    dchan |-> <<>>,   \* daemons: notifications pending in procStateChan (capacity 1, non-blocking send)
    lfails |-> <<>> ] \* consecutive liveness failures counted by the prober of the instance

Init == \E cfg \in Configs : S = InitS(cfg) /\ ctl = InitCtl(cfg)

Insts == DOMAIN ctl.ipc
P(i) == S.inst[i].p
PC(i) == PCfg(Cfg, P(i))
Alive(i) == S.inst[i].alive

MutexFree == ctl.mutex = <<>>
\* the registries are only touched under runProcMutex, which a project shutdown holds throughout
CanLock(who) == ctl.mutex = <<>> \/ ctl.mutex = who

(***************************************************************************)
(* Spawning (runProcess): register under the mutex, wg+1, goroutine starts *)
(***************************************************************************)
NewCtl(c, i, p) ==
  [c EXCEPT !.next = i + 1,
            !.ipc = (i :> "wait") @@ @, !.todo = (i :> DepsOf(Cfg, p)) @@ @, !.wait = (i :> <<>>) @@ @,
            !.cancelled = (i :> FALSE) @@ @, !.stopFlag = (i :> FALSE) @@ @,
            !.started = (i :> FALSE) @@ @, !.done = (i :> FALSE) @@ @,
            !.rlatch = (i :> "unset") @@ @, !.llatch = (i :> "unset") @@ @,
            !.code = (i :> 0) @@ @, !.left = (i :> MaxLaunch) @@ @, !.owner = (i :> <<>>) @@ @,
            !.fails[p] = 0,      \* a new Process object has new probers
            !.dchan = (i :> 0) @@ @, !.lfails = (i :> 0) @@ @,
            !.wg = @ + 1]

RunInit ==      \* Run(): compute the run order
  /\ ~ctl.runqInit
  /\ ctl' = [ctl EXCEPT !.runqInit = TRUE,
                        !.runq = TopoFrom({}, { p \in N : ~PCfg(Cfg, p).deferred })]
  /\ UNCHANGED S

RunSpawn ==
  /\ ctl.runqInit /\ ctl.runq # <<>> /\ MutexFree
  /\ LET p == Head(ctl.runq)  i == ctl.next IN
       /\ S' = Apply(S, Ev("Spawn", p, i))
       /\ ctl' = [NewCtl(ctl, i, p) EXCEPT !.runq = Tail(ctl.runq)]

(***************************************************************************)
(* waitIfNeeded                                                            *)
(***************************************************************************)
DepLookup(i) ==     \* getDoneOrRunningProcess, first half: the running registry
  /\ ctl.ipc[i] = "wait" /\ ctl.wait[i] = <<>>
  /\ IF ctl.todo[i] = {}
     THEN ctl' = [ctl EXCEPT !.ipc[i] = "run.precheck"] /\ UNCHANGED S
     ELSE \E d \in ctl.todo[i] :
            /\ MutexFree      \* getRunningProcess takes runProcMutex
            /\ LET t == IF d.k \notin N THEN NoInst ELSE S.running[d.k]
               IN ctl' = [ctl EXCEPT !.wait[i] = <<d, t>>] /\ UNCHANGED S

DepLookupDone(i) == \* second half: the done registry (a finishing process is added there first)
  /\ ctl.ipc[i] = "wait" /\ ctl.wait[i] # <<>> /\ ctl.wait[i][2] = NoInst
  /\ LET d == ctl.wait[i][1]
         t == IF d.k \notin N THEN NoInst ELSE S.doneReg[d.k]
     IN IF t = NoInst
        THEN ctl' = [ctl EXCEPT !.wait[i] = <<>>, !.todo[i] = @ \ {d}] /\ UNCHANGED S
        ELSE ctl' = [ctl EXCEPT !.wait[i] = <<d, t>>] /\ UNCHANGED S

DepRelease(i) ==
  /\ ctl.ipc[i] = "wait" /\ ctl.wait[i] # <<>> /\ ctl.wait[i][2] # NoInst
  /\ LET d == ctl.wait[i][1]
         t == ctl.wait[i][2]
         k == d.k
         released ==
           CASE d.cond \in {"process_completed", "process_completed_successfully"} -> ctl.done[t]
             [] d.cond = "process_healthy"   -> ctl.rlatch[t] # "unset"
             [] d.cond = "process_log_ready" -> ctl.llatch[t] # "unset"
             [] OTHER                        -> ctl.started[t] \/ ctl.cancelled[t]
         ok ==
           CASE d.cond = "process_completed" -> TRUE
             [] d.cond = "process_completed_successfully" -> S.exitCode[k] = 0
             [] d.cond = "process_healthy"   -> S.health[k] = "Ready"
             [] d.cond = "process_log_ready" -> ctl.llatch[t] = "ready"
             [] OTHER                        -> ctl.started[t]
     IN /\ released
        /\ IF ok
           THEN /\ ctl' = [ctl EXCEPT !.wait[i] = <<>>, !.todo[i] = @ \ {d}]
                /\ UNCHANGED S
           ELSE /\ ctl' = [ctl EXCEPT !.wait[i] = <<>>, !.ipc[i] = "skip"]
                /\ S' = Apply(S, [ev |-> "DepUnsat", p |-> P(i), i |-> i, k |-> k])

\* waitIfNeededOrStopped: a pending instance that a stop request has ended no longer waits for its dependencies
\* (the look-ups already made are abandoned); run() then sees the cancelled run context
DepAbort(i) ==
  /\ ctl.ipc[i] = "wait" /\ ctl.cancelled[i] /\ ctl.todo[i] # {}
  /\ ctl' = [ctl EXCEPT !.wait[i] = <<>>, !.todo[i] = {}, !.ipc[i] = "run.precheck"]
  /\ UNCHANGED S

(***************************************************************************)
(* Process.onProcessEnd (shared by Skip, Error, Completed, stop-pending)   *)
(***************************************************************************)
EndEvents(i, status, exit) == << StateEv(P(i), i, status, exit),
                                 [ev |-> "Done", p |-> P(i), i |-> i, status |-> status, exit |-> exit] >>
EndCtl(c, i) ==
  [c EXCEPT !.done[i] = TRUE, !.cancelled[i] = TRUE,
            !.rlatch[i] = IF @ = "unset" /\ PC(i).hasReadyProbe THEN "aborted" ELSE @,
            !.llatch[i] = IF @ = "unset" THEN "aborted" ELSE @]

\* onProcessEnd takes effect once per instance (claimEnd): a stop request may have ended a pending
\* instance already, in which case the second caller changes nothing
Skip(i) ==      \* wontRun + addDoneProcess; onProcessSkipped follows in the epilogue
  /\ ctl.ipc[i] = "skip"
  /\ S' = ApplyAll(S, (IF ctl.done[i] THEN <<>> ELSE EndEvents(i, "Skipped", 1)) \o <<Ev("DoneReg", P(i), i)>>)
  \* an instance a stop request ended while it was pending was not skipped: no exit_on_skipped for it
  /\ ctl' = [EndCtl(ctl, i) EXCEPT !.ipc[i] = IF ctl.done[i] THEN "epilogue.wg" ELSE "epilogue.skipped", !.code[i] = 1]

(***************************************************************************)
(* Process.run()                                                           *)
(***************************************************************************)
PreCheck(i) ==
  /\ ctl.ipc[i] = "run.precheck"
  /\ IF ctl.cancelled[i]
     THEN \* stopped before start: wait until the stop request has ended the instance; an ended
          \* instance does not write the (shared) state record
          /\ ctl.done[i]
          /\ UNCHANGED S
          /\ ctl' = [ctl EXCEPT !.ipc[i] = "epilogue.add", !.code[i] = 0]
     ELSE IF PC(i).badWorkdir
          THEN /\ S' = IF ctl.done[i] THEN S
                         ELSE ApplyAll(S, EndEvents(i, "Error", IF S.exitCode[P(i)] = 0 THEN 1 ELSE S.exitCode[P(i)]))
               /\ ctl' = [EndCtl(ctl, i) EXCEPT !.ipc[i] = "epilogue.add", !.code[i] = 1]
          ELSE /\ S' = Apply(S, Ev("Started", P(i), i))
               /\ ctl' = [ctl EXCEPT !.started[i] = TRUE, !.ipc[i] = "run.launch"]

Launch(i) ==    \* setStateAndRun: run-context check, state and Commander.Start() in one critical section
  /\ ctl.ipc[i] = "run.launch"
  /\ IF ctl.cancelled[i]
     THEN ctl' = [ctl EXCEPT !.ipc[i] = "ending"] /\ UNCHANGED S
     ELSE \/ /\ ctl.left[i] > 0
             /\ S' = ApplyAll(S, << StateEv(P(i), i, IF PC(i).daemon THEN "Launching" ELSE "Running", S.exitCode[P(i)]),
                                    [ev |-> "Launch", p |-> P(i), i |-> i, t |-> ctl.now] >>)
             \* forgetDaemonStopped: a notification left over from an earlier launch is dropped
             \* the probes are stopped and started again with every launch: failure counts start afresh
             /\ ctl' = [ctl EXCEPT !.ipc[i] = "running", !.left[i] = @ - 1, !.dchan[i] = 0,
                                   !.fails[P(i)] = 0, !.lfails[i] = 0]
          \/ /\ StartFailures
             /\ LET s1 == ApplyAll(S, << StateEv(P(i), i, "Running", S.exitCode[P(i)]),
                                        [ev |-> "StartFail", p |-> P(i), i |-> i, attempt |-> S.inst[i].launches + 1] >>)
                    ex == IF s1.exitCode[P(i)] = 0 THEN 1 ELSE s1.exitCode[P(i)]
                IN S' = ApplyAll(s1, << [ev |-> "State", p |-> P(i), i |-> i, status |-> "Error", exit |-> ex,
                                         health |-> s1.health[P(i)], restarts |-> s1.restarts[P(i)]],
                                        [ev |-> "Done", p |-> P(i), i |-> i, status |-> "Error", exit |-> ex] >>)
             /\ ctl' = [EndCtl(ctl, i) EXCEPT !.ipc[i] = "epilogue.add", !.code[i] = 1]

\* environment: the command exits on its own, or after a signal
CmdExit(i) ==
  /\ ctl.ipc[i] = "running" /\ Alive(i)
  /\ \/ /\ ~S.inst[i].sig
        /\ ctl.left[i] >= 0
        /\ \E c \in Codes : S' = Apply(S, [ev |-> "Exit", p |-> P(i), i |-> i, code |-> c, bySignal |-> FALSE, t |-> ctl.now])
     \/ /\ S.inst[i].sig
        /\ S' = Apply(S, [ev |-> "Exit", p |-> P(i), i |-> i, code |-> -1, bySignal |-> TRUE, t |-> ctl.now])
  /\ UNCHANGED ctl

ReadyLine(i) ==   \* handleOutput matched ready_log_line
  /\ ctl.ipc[i] = "running" /\ Alive(i) /\ PC(i).hasReadyLine /\ S.health[P(i)] = "-"
  /\ S' = [Apply(S, Ev("ReadyLine", P(i), i)) EXCEPT !.health[P(i)] = "Ready"]
  /\ ctl' = [ctl EXCEPT !.llatch[i] = IF @ = "unset" THEN "ready" ELSE @]

ProbeOk(i) ==
  /\ ctl.ipc[i] = "running" /\ Alive(i) /\ PC(i).hasReadyProbe /\ S.status[P(i)] = "Running"
  /\ S' = [Apply(S, [ev |-> "Probe", p |-> P(i), i |-> i, kind |-> "ready", ok |-> TRUE, fatal |-> FALSE])
             EXCEPT !.health[P(i)] = "Ready"]
  /\ ctl' = [ctl EXCEPT !.rlatch[i] = IF @ = "unset" THEN "ready" ELSE @, !.fails[P(i)] = 0]

ProbeFail(i) ==   \* the failure_threshold-th consecutive failure is fatal: internalStop
  /\ ctl.ipc[i] = "running" /\ Alive(i) /\ PC(i).hasReadyProbe /\ S.status[P(i)] = "Running"
  /\ LET n == ctl.fails[P(i)] + 1
         fatal == n = PC(i).threshold
         s1 == [Apply(S, [ev |-> "Probe", p |-> P(i), i |-> i, kind |-> "ready", ok |-> FALSE, fatal |-> fatal])
                  EXCEPT !.health[P(i)] = "Not Ready"]
     IN /\ n <= PC(i).threshold
        /\ IF fatal
           THEN S' = ApplyAll(s1, << [ev |-> "State", p |-> P(i), i |-> i, status |-> "Terminating",
                                      exit |-> s1.exitCode[P(i)], health |-> "-", restarts |-> s1.restarts[P(i)]],
                                     [ev |-> "Signal", p |-> P(i), i |-> i, sig |-> 15, sinceStopUs |-> -1] >>)
           ELSE S' = s1
        \* stopping the probes (fatal -> internalStop) resets the count
        /\ ctl' = [ctl EXCEPT !.fails[P(i)] = IF fatal THEN 0 ELSE n]

Reap(i) ==      \* Wait() returned; setExitCode; a daemon whose launcher returned 0 is now Launched
  /\ ctl.ipc[i] = "running" /\ ~Alive(i) /\ S.inst[i].exits = S.inst[i].launches
  /\ LET s1 == Apply(S, [ev |-> "Reaped", p |-> P(i), i |-> i, code |-> S.inst[i].lastCode])
         launched == PC(i).daemon /\ S.inst[i].lastCode = 0
     IN /\ S' = IF launched /\ s1.status[P(i)] = "Launching"      \* setStateIf(Launching, Launched)
                THEN Apply(s1, StateEv(P(i), i, "Launched", 0)) ELSE s1
        /\ ctl' = [ctl EXCEPT !.ipc[i] = IF launched THEN "daemon.wait" ELSE "run.decide", !.code[i] = S.inst[i].lastCode]

\* waitForDaemonCompletion: blocks until a notification (fatal liveness result, stop) is pending
DaemonWake(i) ==
  /\ ctl.ipc[i] = "daemon.wait" /\ ctl.dchan[i] = 1
  /\ ctl' = [ctl EXCEPT !.ipc[i] = "run.decide", !.dchan[i] = 0]
  /\ UNCHANGED S

LiveOk(i) ==      \* a successful liveness probe resets the prober's failure count
  /\ PC(i).daemon /\ PC(i).hasLiveProbe /\ ~ctl.done[i]
  /\ S.inst[i].launches >= 1 /\ S.status[P(i)] # "Terminating" /\ ctl.lfails[i] > 0
  /\ S' = Apply(S, [ev |-> "Probe", p |-> P(i), i |-> i, kind |-> "live", ok |-> TRUE, fatal |-> FALSE])
  /\ ctl' = [ctl EXCEPT !.lfails[i] = 0]

\* environment: the liveness probe of a daemon fails (the prober runs from the launch until the probes are
\* stopped); the failure_threshold-th consecutive failure is fatal: notifyDaemonStopped (never blocks)
LiveFail(i) ==
  /\ PC(i).daemon /\ PC(i).hasLiveProbe /\ ~ctl.done[i]
  /\ S.inst[i].launches >= 1 /\ S.status[P(i)] # "Terminating"     \* the probers run from the first launch until a stop / the end
  /\ ctl.lfails[i] < PC(i).threshold
  /\ LET n == ctl.lfails[i] + 1
         fatal == n = PC(i).threshold
     IN /\ S' = Apply(S, [ev |-> "Probe", p |-> P(i), i |-> i, kind |-> "live", ok |-> FALSE, fatal |-> fatal])
        /\ ctl' = [ctl EXCEPT !.lfails[i] = n, !.dchan[i] = IF fatal THEN 1 ELSE @]

Decide(i) ==    \* isRestartable(): consumes the stop flag, then the policy table
  /\ ctl.ipc[i] = "run.decide"
  /\ LET pc == PC(i)
         restartable == /\ ~ctl.stopFlag[i]
                        /\ PolicyWants(pc, ctl.code[i])
                        /\ (pc.maxRestarts = 0 \/ S.restarts[P(i)] < pc.maxRestarts)
     IN IF restartable /\ ctl.left[i] > 0
        THEN /\ S' = ApplyAll(S, << StateEv(P(i), i, "Restarting", ctl.code[i]),
                                    [ev |-> "Restarting", p |-> P(i), i |-> i, restarts |-> S.restarts[P(i)] + 1],
                                    [ev |-> "Backoff", p |-> P(i), i |-> i, ms |-> Max(1000, pc.backoff * 1000)] >>)
             /\ ctl' = [ctl EXCEPT !.ipc[i] = "run.backoff", !.stopFlag[i] = FALSE]
        ELSE /\ ~(restartable /\ ctl.left[i] = 0)     \* model bound: do not cut a behaviour short
             /\ ctl' = [ctl EXCEPT !.ipc[i] = "ending", !.stopFlag[i] = FALSE]
             /\ UNCHANGED S

BackoffElapsed(i) ==
  /\ ctl.ipc[i] = "run.backoff"
  /\ ctl' = [ctl EXCEPT !.ipc[i] = "run.launch",
                        !.now = @ + (Max(1000, PC(i).backoff * 1000) * Cfg.backoffScaleUs) \div 1000]
  /\ UNCHANGED S

BackoffAborted(i) ==
  /\ ctl.ipc[i] = "run.backoff" /\ ctl.cancelled[i]
  /\ ctl' = [ctl EXCEPT !.ipc[i] = "ending"]
  /\ UNCHANGED S

End(i) ==       \* onProcessEnd(Completed)
  /\ ctl.ipc[i] = "ending"
  /\ S' = IF ctl.done[i] THEN S
          ELSE ApplyAll(S, EndEvents(i, "Completed", IF S.inst[i].exits > 0 THEN ctl.code[i] ELSE S.exitCode[P(i)]))
  /\ ctl' = [EndCtl(ctl, i) EXCEPT !.ipc[i] = "epilogue.add"]

(***************************************************************************)
(* goroutine epilogue: addDoneProcess, project onProcessEnd (exit_on_X),   *)
(* WaitGroup.Done, removeRunningProcess (by identity)                      *)
(***************************************************************************)
EpilogueAdd(i) ==
  /\ ctl.ipc[i] = "epilogue.add"
  /\ S' = Apply(S, Ev("DoneReg", P(i), i))
  /\ ctl' = [ctl EXCEPT !.ipc[i] = "epilogue.project"]

IsTrigger(i) ==
  IF ctl.ipc[i] = "epilogue.skipped" THEN PC(i).exitOnSkipped
  ELSE (ctl.code[i] # 0 /\ PC(i).policy = "exit_on_failure") \/ PC(i).exitOnEnd

EpilogueProject(i) ==
  /\ ctl.ipc[i] \in {"epilogue.project", "epilogue.skipped"}
  /\ IF IsTrigger(i) /\ ~ctl.shutReq
     THEN ctl' = [ctl EXCEPT !.shutReq = TRUE, !.ipc[i] = "trigger.lock"]    \* ShutDownProject() by this goroutine
     ELSE ctl' = [ctl EXCEPT !.ipc[i] = "epilogue.wg"]
  /\ UNCHANGED S

TriggerDone(i) ==   \* p.exitCode = code after ShutDownProject returned
  /\ ctl.ipc[i] = "trigger.done"
  /\ S' = Apply(S, [ev |-> "ProjExit", code |-> ctl.code[i]])
  /\ ctl' = [ctl EXCEPT !.ipc[i] = "epilogue.wg", !.projExit = ctl.code[i]]

EpilogueWg(i) ==
  /\ ctl.ipc[i] = "epilogue.wg"
  /\ ctl' = [ctl EXCEPT !.ipc[i] = "epilogue.unreg", !.wg = @ - 1]
  /\ UNCHANGED S

EpilogueUnreg(i) ==
  /\ ctl.ipc[i] = "epilogue.unreg" /\ MutexFree
  /\ S' = Apply(S, Ev("Unreg", P(i), i))
  /\ ctl' = [ctl EXCEPT !.ipc[i] = "finished"]

RunReturn ==
  /\ ctl.runqInit /\ ctl.runq = <<>> /\ ctl.wg = 0 /\ ~ctl.runDone
  /\ S' = Apply(S, [ev |-> "RunReturn", code |-> ctl.projExit])
  /\ ctl' = [ctl EXCEPT !.runDone = TRUE]

(***************************************************************************)
(* stopProcess(external) as a small state machine owned by a caller.       *)
(* A caller is <<"api", id>> or <<"inst", i>> (exit_on_X trigger) or       *)
(* <<"shut", t>> (per-target goroutine of an ordered shutdown).            *)
(* ctl.owner[t] = the steps left for the stop in flight on instance t.     *)
(***************************************************************************)
StopCancel(t) ==        \* runCancelFn()
  [ctl EXCEPT !.cancelled[t] = TRUE]

\* second half of stopProcess: state check + action, returns <<S', ctl'>>
StopAct(s, c, t) ==
  LET p == s.inst[t].p IN
  IF s.status[p] \notin RunningStates \/ s.inst[t].launches = 0
  THEN IF ~c.started[t] /\ ~c.done[t]
       THEN \* a pending instance: nothing to terminate, onProcessEnd(Completed) in this one step
            << ApplyAll(s, << [ev |-> "State", p |-> p, i |-> t, status |-> "Completed", exit |-> s.exitCode[p],
                               health |-> "-", restarts |-> s.restarts[p]],
                              [ev |-> "Done", p |-> p, i |-> t, status |-> "Completed", exit |-> s.exitCode[p]] >>),
               [c EXCEPT !.done[t] = TRUE, !.cancelled[t] = TRUE,
                         !.rlatch[t] = IF @ = "unset" /\ PCfg(s.cfg, p).hasReadyProbe THEN "aborted" ELSE @,
                         !.llatch[t] = IF @ = "unset" THEN "aborted" ELSE @] >>
       ELSE << s, c >>
  ELSE IF c.done[t]
  THEN << s, c >>     \* setStateIfRunning: an ended instance does not take its successor's Running for its own
  ELSE IF PCfg(s.cfg, p).daemon
  THEN \* a daemon is stopped through its shutdown command (assumed to succeed): no signal to the launcher;
       \* doConfiguredStop notifies the goroutine waiting in waitForDaemonCompletion
       << Apply(s, [ev |-> "State", p |-> p, i |-> t, status |-> "Terminating", exit |-> s.exitCode[p],
                    health |-> "-", restarts |-> s.restarts[p]]),
          [c EXCEPT !.dchan[t] = 1, !.fails[p] = 0] >>
  ELSE << ApplyAll(s, << [ev |-> "State", p |-> p, i |-> t, status |-> "Terminating", exit |-> s.exitCode[p],
                          health |-> "-", restarts |-> s.restarts[p]],
                         [ev |-> "Signal", p |-> p, i |-> t, sig |-> 15, sinceStopUs |-> -1] >>),
          [c EXCEPT !.rlatch[t] = IF @ = "unset" /\ PCfg(s.cfg, p).hasReadyProbe THEN "aborted" ELSE @,
                    !.llatch[t] = IF @ = "unset" THEN "aborted" ELSE @,
                    !.fails[p] = 0] >>

(***************************************************************************)
(* ShutDownProject: lock, order, prepare, stop each (+ wait), return.      *)
(* ctl.shut = [active, who, order, idx, targets]                           *)
(***************************************************************************)
Registered == { p \in N : S.running[p] # NoInst }

RECURSIVE RevTopo(_, _)
RevTopo(left, acc) ==      \* dependents before the processes they depend on
  IF left = {} THEN acc
  ELSE LET free == { p \in left : \A q \in left : \A d \in DepsOf(Cfg, q) : d.k # p \/ q = p }
           p == CHOOSE x \in free : TRUE
       IN RevTopo(left \ {p}, Append(acc, p))

SetToSeq(s) == RevTopo(s, <<>>)

ShutLock(who) ==
  /\ MutexFree /\ ~ctl.shut.active
  /\ LET ord == SetToSeq(Registered)
         tg  == [k \in 1..Len(ord) |-> S.running[ord[k]]]
     IN /\ S' = ApplyAll(S, << [ev |-> "ShutdownBegin", order |-> ord, ordered |-> Cfg.ordered],
                                  [ev |-> "ShutdownPrepared"] >>)
        /\ ctl' = [ctl EXCEPT !.mutex = who, !.shutReq = TRUE,
                              !.shut = [active |-> TRUE, who |-> who, order |-> ord, targets |-> tg, idx |-> 1,
                                        phase |-> "stop", cancelledIdx |-> 0, stopped |-> {}],
                              !.stopFlag = [i \in DOMAIN ctl.stopFlag |->
                                              IF i \in Range(tg) THEN TRUE ELSE ctl.stopFlag[i]]]

\* unordered: stop the targets one after the other (shutDown() of each), then wait for all
ShutStopCancel ==
  /\ ctl.shut.active /\ ~Cfg.ordered /\ ctl.shut.phase = "stop"
  /\ ctl.shut.idx <= Len(ctl.shut.order) /\ ctl.shut.cancelledIdx < ctl.shut.idx
  /\ ctl' = [StopCancel(ctl.shut.targets[ctl.shut.idx]) EXCEPT !.shut.cancelledIdx = ctl.shut.idx]
  /\ UNCHANGED S

ShutStopAct ==
  /\ ctl.shut.active /\ ~Cfg.ordered /\ ctl.shut.phase = "stop"
  /\ ctl.shut.idx <= Len(ctl.shut.order) /\ ctl.shut.cancelledIdx = ctl.shut.idx
  /\ LET r == StopAct(S, ctl, ctl.shut.targets[ctl.shut.idx]) IN
       /\ S' = r[1]
       /\ ctl' = [r[2] EXCEPT !.shut.idx = @ + 1]

\* ordered: a target is stopped once every dependent that was registered at the beginning is done
OrdReady(k) ==
  LET p == ctl.shut.order[k] IN
  \A j \in 1..Len(ctl.shut.order) :
     (\E d \in DepsOf(Cfg, ctl.shut.order[j]) : d.k = p) => ctl.done[ctl.shut.targets[j]]

ShutOrdCancel(k) ==
  /\ ctl.shut.active /\ Cfg.ordered /\ ctl.shut.phase = "stop"
  /\ k \in 1..Len(ctl.shut.order) /\ k \notin ctl.shut.stopped /\ OrdReady(k)
  /\ ~ctl.cancelled[ctl.shut.targets[k]] \/ ctl.done[ctl.shut.targets[k]] \/ TRUE
  /\ LET r == StopAct(S, StopCancel(ctl.shut.targets[k]), ctl.shut.targets[k]) IN
       /\ S' = r[1]
       /\ ctl' = [r[2] EXCEPT !.shut.stopped = @ \cup {k}]

ShutAllStopped ==
  IF Cfg.ordered THEN ctl.shut.stopped = 1..Len(ctl.shut.order)
  ELSE ctl.shut.idx > Len(ctl.shut.order)

ShutReturn ==
  /\ ctl.shut.active /\ ctl.shut.phase = "stop" /\ ShutAllStopped
  /\ \A k \in 1..Len(ctl.shut.order) : ctl.done[ctl.shut.targets[k]]      \* waitForCompletion of each
  /\ S' = Apply(S, [ev |-> "ShutdownReturn"])
  /\ LET who == ctl.shut.who IN
     ctl' = [ctl EXCEPT !.mutex = <<>>, !.shut = [active |-> FALSE],
                        !.ipc = IF who[1] = "inst" THEN [@ EXCEPT ![who[2]] = "trigger.done"] ELSE @,
                        !.calls = IF who[1] = "api" THEN [@ EXCEPT ![who[2]].pc = "return"] ELSE @]

TriggerLock(i) ==
  /\ ctl.ipc[i] = "trigger.lock"
  /\ ShutLock(<<"inst", i>>)

(***************************************************************************)
(* API calls                                                               *)
(***************************************************************************)
OpenCallsOn(p) == { id \in DOMAIN ctl.calls : ctl.calls[id].p = p /\ ctl.calls[id].pc # "closed" }

ApiBegin(op, p) ==
  /\ ctl.apiLeft > 0 /\ op \in ApiOps /\ ctl.runqInit /\ ctl.runq = <<>>
  /\ (SerializeApi /\ op # "shutdown") => OpenCallsOn(p) = {}
  /\ (op = "shutdown") => p = ""
  /\ (op # "shutdown") => p \in N
  /\ LET id == ctl.apiNext IN
       /\ S' = Apply(S, [ev |-> "ApiBegin", id |-> id, op |-> op, p |-> p])
       /\ ctl' = [ctl EXCEPT !.apiLeft = @ - 1, !.apiNext = @ + 1,
                             !.calls = (id :> [op |-> op, p |-> p, pc |-> "lookup", target |-> NoInst]) @@ @]

ApiReturn(id, ok) == Apply(S, [ev |-> "ApiEnd", id |-> id, ok |-> ok])

ApiLookup(id) ==
  /\ ctl.calls[id].pc = "lookup" /\ ctl.calls[id].op # "shutdown" /\ MutexFree
  /\ LET c == ctl.calls[id]  t == S.running[c.p] IN
     CASE c.op = "start" ->
            IF t # NoInst
            THEN S' = ApiReturn(id, FALSE) /\ ctl' = [ctl EXCEPT !.calls[id].pc = "closed"]
            ELSE UNCHANGED S /\ ctl' = [ctl EXCEPT !.calls[id].pc = "api.start.checked"]
       [] c.op = "stop" ->
            IF t = NoInst
            THEN S' = ApiReturn(id, FALSE) /\ ctl' = [ctl EXCEPT !.calls[id].pc = "closed"]
            ELSE S' = Apply(S, Ev("StopReq", c.p, t))
                 /\ ctl' = [ctl EXCEPT !.calls[id].pc = "stop.cancel", !.calls[id].target = t,
                                       !.stopFlag[t] = TRUE]
       [] c.op = "restart" ->
            IF t = NoInst
            THEN UNCHANGED S /\ ctl' = [ctl EXCEPT !.calls[id].pc = "api.restart.slept"]
            ELSE S' = Apply(S, Ev("StopReq", c.p, t))
                 /\ ctl' = [ctl EXCEPT !.calls[id].pc = "stop.cancel", !.calls[id].target = t,
                                       !.stopFlag[t] = TRUE]

ApiStopCancel(id) ==
  /\ ctl.calls[id].pc = "stop.cancel"
  /\ ctl' = [StopCancel(ctl.calls[id].target) EXCEPT !.calls[id].pc = "stop.act"]
  /\ UNCHANGED S

ApiStopAct(id) ==
  /\ ctl.calls[id].pc = "stop.act"
  /\ LET r == StopAct(S, ctl, ctl.calls[id].target) IN
       IF ctl.calls[id].op = "stop"
       THEN /\ S' = Apply(r[1], [ev |-> "ApiEnd", id |-> id, ok |-> TRUE])
            /\ ctl' = [r[2] EXCEPT !.calls[id].pc = "closed"]
       ELSE /\ S' = r[1]
            /\ ctl' = [r[2] EXCEPT !.calls[id].pc = "restart.wait"]

ApiRestartWait(id) ==     \* waitForCompletion of the old instance, then the back-off sleep
  /\ ctl.calls[id].pc = "restart.wait" /\ ctl.done[ctl.calls[id].target]
  /\ ctl' = [ctl EXCEPT !.calls[id].pc = "api.restart.slept"]
  /\ UNCHANGED S

ApiSpawn(id) ==           \* runProcess of a new instance (start / restart)
  /\ ctl.calls[id].pc \in {"api.start.checked", "api.restart.slept"} /\ MutexFree
  /\ ctl.next <= MaxInst
  /\ LET p == ctl.calls[id].p  i == ctl.next
         s1 == Apply(S, Ev("Spawn", p, i))
         cur == S.running[p]
     IN IF cur # NoInst /\ ~ctl.done[cur]
        THEN \* addRunningProcess refuses to replace an instance that has not ended (check and registration are atomic)
             /\ S' = Apply(Apply(S, Ev("SpawnRefused", p, i)), [ev |-> "ApiEnd", id |-> id, ok |-> FALSE])
             /\ ctl' = [ctl EXCEPT !.calls[id].pc = "closed"]
        ELSE /\ S' = Apply(s1, [ev |-> "ApiEnd", id |-> id, ok |-> TRUE])
             /\ ctl' = [NewCtl(ctl, i, p) EXCEPT !.calls[id].pc = "closed"]

ApiShutLock(id) ==
  /\ ctl.calls[id].pc = "lookup" /\ ctl.calls[id].op = "shutdown"
  /\ ShutLock(<<"api", id>>)

ApiShutReturn(id) ==
  /\ ctl.calls[id].pc = "return"
  /\ S' = ApiReturn(id, TRUE)
  /\ ctl' = [ctl EXCEPT !.calls[id].pc = "closed"]

(***************************************************************************)
Next ==
  \/ RunInit \/ RunSpawn \/ RunReturn
  \/ \E i \in Insts :
       \/ DepLookup(i) \/ DepLookupDone(i) \/ DepRelease(i) \/ DepAbort(i) \/ Skip(i) \/ PreCheck(i) \/ Launch(i)
       \/ CmdExit(i) \/ ReadyLine(i) \/ ProbeOk(i) \/ ProbeFail(i) \/ Reap(i) \/ Decide(i)
       \/ DaemonWake(i) \/ LiveFail(i) \/ LiveOk(i)
       \/ BackoffElapsed(i) \/ BackoffAborted(i) \/ End(i)
       \/ EpilogueAdd(i) \/ EpilogueProject(i) \/ TriggerLock(i) \/ TriggerDone(i)
       \/ EpilogueWg(i) \/ EpilogueUnreg(i)
  \/ ShutStopCancel \/ ShutStopAct \/ ShutReturn
  \/ \E k \in 1..8 : ShutOrdCancel(k)
  \/ \E op \in ApiOps : \E p \in N \cup {""} : ApiBegin(op, p)
  \/ \E id \in DOMAIN ctl.calls :
       \/ ApiLookup(id) \/ ApiStopCancel(id) \/ ApiStopAct(id) \/ ApiRestartWait(id) \/ ApiSpawn(id)
       \/ ApiShutLock(id) \/ ApiShutReturn(id)

Spec == Init /\ [][Next]_vars
FairSpec == Spec /\ WF_vars(Next)

(***************************************************************************)
(* Properties of the design configurations                                 *)
(***************************************************************************)
AllInvs == Violated(S) = {}
InvC01 == C01_Gating(S)
InvC02 == /\ C02_RelaunchOnlyIfPolicy(S) /\ C02_NoRelaunchAfterStop(S) /\ C02_MustRelaunch(S)
          /\ C02_NoRelaunchAfterShutdownRequest(S)
          /\ C02_BackoffValue(S) /\ C02_BackoffLowerBound(S) /\ C02_RestartsCountAtLaunch(S)
InvC03 == C03_NothingAliveAfterShutdown(S) /\ C03_NoLaunchAfterShutdown(S)
InvC04 == C04_RunNotEarly(S) /\ C04_ExitCode(S)
InvC05 == C05_SkippedNeverLaunched(S) /\ C05_SkipHasNonZeroExit(S) /\ C05_ExitOnSkipped(S)
InvC08 == /\ C08_AtMostOneAlive(S) /\ C08_StopNoRelaunch(S) /\ C08_NoSpawnOverActive(S)
          /\ C08_StartResult(S) /\ C08_RestartResult(S) /\ C08_NoVanishedInstance(S)
InvC09 == C09_LegalTransition(S) /\ C09_DoneMeansDead(S) /\ C09_ReapedCodeTruth(S)
InvC10 == C10_ReadyOnlyAfterSuccess(S) /\ C10_HealthForgotten(S) /\ C10_FatalThenPolicy(S)
InvC12 == C12_NoSignalWhileDependentAlive(S)

\* quiescent states: nothing enabled.  There, Run() has returned and the at-rest predicates hold
Quiescent == ~ENABLED Next
RestS == Apply(S, [ev |-> "End", atRest |-> TRUE])
CutByBound == \E i \in Insts : ctl.ipc[i] = "run.decide"    \* MaxLaunch reached
AtRestOK ==
  (Quiescent /\ ~CutByBound) =>
               /\ ctl.runDone
               /\ Violated(RestS) = {}

\* Run() eventually returns (liveness, only meaningful without a state constraint)
RunEventuallyReturns == <>(ctl.runDone)

\* bound used by the exhaustive configurations
Constraint == ctl.next <= MaxInst + 1
View == <<[S EXCEPT !.last = [ev |-> S.last.ev]], ctl>>
=============================================================================
