SPECIFICATION LSpec
CONSTANT Threads <- MCThreads5
INVARIANTS C20_Design_LockOwner
CHECK_DEADLOCK TRUE
