SPECIFICATION Spec
CONSTANTS
  Size = 2
  Slack = 2
  MaxWrites = 7
  Observers = {o1, o2}
  Tails = {0, 1, 2, 9}
INVARIANTS C18_Recent C18_FollowerNoGapNoDup C18_RangeTotal
CHECK_DEADLOCK FALSE
