------------------------------ MODULE PCConfig ------------------------------
(***************************************************************************)
(* Pure configuration semantics: merge of several files (C15), loading     *)
(* defaults / replicas / templates (C16), environment expansion and launch *)
(* environment (C17), effective probe parameters (C10), change detection   *)
(* (C14).  Every operator is a predicate over one record written by the    *)
(* harness from the real loader / runner; text-shaped inputs are token     *)
(* sequences and the expected text is built here by concatenation.         *)
(***************************************************************************)
EXTENDS Integers, Sequences, FiniteSets, TLC

RangeC(f) == { f[x] : x \in DOMAIN f }
Pairs(s)  == { <<x[1], x[2]>> : x \in RangeC(s) }          \* sequence of [k, v] -> set of <<k, v>>
Keys(s)   == { x[1] : x \in RangeC(s) }
Has(s, k) == k \in Keys(s)
Val(s, k) == (CHOOSE x \in RangeC(s) : x[1] = k)[2]         \* value of the first pair with key k

RECURSIVE ConcatAll(_)
ConcatAll(ss) == IF ss = <<>> THEN "" ELSE Head(ss) \o ConcatAll(Tail(ss))

(***************************************************************************)
(* C15 merge                                                               *)
(***************************************************************************)
FileProcs(f) == RangeC(f.procs)
ProcIn(f, n) == CHOOSE p \in FileProcs(f) : p.name = n
DefinedIn(f, n) == \E p \in FileProcs(f) : p.name = n
AllNames(e) == UNION { { p.name : p \in FileProcs(f) } : f \in RangeC(e.files) }

\* index of the last file in which process n sets single-valued option o (0: none)
LastSetting(e, n, o) ==
  LET idx == { k \in DOMAIN e.files : DefinedIn(e.files[k], n) /\ Has(ProcIn(e.files[k], n).opts, o) }
  IN IF idx = {} THEN 0 ELSE CHOOSE k \in idx : \A j \in idx : j <= k

\* merge-by-key of lists of pairs taken from the files in order: later files win
MergedPairs(seqs) ==
  LET allKeys == UNION { Keys(seqs[k]) : k \in DOMAIN seqs }
      lastIdx(key) == CHOOSE k \in DOMAIN seqs : Has(seqs[k], key) /\ \A j \in DOMAIN seqs : Has(seqs[j], key) => j <= k
  IN { <<key, Val(seqs[lastIdx(key)], key)>> : key \in allKeys }

ProcSeqs(e, n, field) ==
  LET idx == { k \in DOMAIN e.files : DefinedIn(e.files[k], n) }
      RECURSIVE Build(_)
      Build(k) == IF k > Len(e.files) THEN <<>>
                  ELSE (IF k \in idx THEN << IF field = "env" THEN ProcIn(e.files[k], n).env ELSE ProcIn(e.files[k], n).deps >>
                        ELSE <<>>) \o Build(k + 1)
  IN Build(1)

ResProc(e, n) == CHOOSE p \in RangeC(e.result.procs) : p.name = n

IsRelative(e, wd) == wd = "" \/ wd \in RangeC(e.relvals)
Resolved(dir, wd) == IF wd = "" THEN dir ELSE dir \o "/" \o wd

\* extends: every extended file (all but the last of the chain) has the empty / relative working directories
\* of its processes resolved against its directory, i.e. it always "sets" working_dir for the processes it defines
ExpectedWd(e, n) ==
  LET last == Len(e.files)
      idx == { k \in DOMAIN e.files : DefinedIn(e.files[k], n)
                                      /\ (k < last \/ Has(ProcIn(e.files[k], n).opts, "working_dir")) }
      k == IF idx = {} THEN 0 ELSE CHOOSE x \in idx : \A j \in idx : j <= x
      v == IF k = 0 THEN ""
           ELSE IF Has(ProcIn(e.files[k], n).opts, "working_dir") THEN Val(ProcIn(e.files[k], n).opts, "working_dir") ELSE ""
  IN IF k # 0 /\ k < last /\ IsRelative(e, v) THEN Resolved(e.baseDir, v) ELSE v

ExpectedOpt(e, n, o) ==
  LET k == LastSetting(e, n, o)
      v == IF k = 0 THEN "" ELSE Val(ProcIn(e.files[k], n).opts, o)
  IN IF e.mode = "extends" /\ o = "working_dir" THEN ExpectedWd(e, n) ELSE v

C15_ProcessUnion(e) == ~e.loadErr => { p.name : p \in RangeC(e.result.procs) } = AllNames(e)
C15_OverrideWins(e) ==
  ~e.loadErr =>
    \A n \in AllNames(e) : \A o \in RangeC(e.tracked) :
       (\E p \in RangeC(e.result.procs) : p.name = n) => Val(ResProc(e, n).opts, o) = ExpectedOpt(e, n, o)
C15_EnvMergedByKeyByteExact(e) ==
  ~e.loadErr =>
    /\ \A n \in AllNames(e) :
         (\E p \in RangeC(e.result.procs) : p.name = n) => Pairs(ResProc(e, n).env) = MergedPairs(ProcSeqs(e, n, "env"))
    /\ Pairs(e.result.env) = MergedPairs([k \in DOMAIN e.files |-> e.files[k].env])
C15_DepsMergedByKey(e) ==
  ~e.loadErr =>
    \A n \in AllNames(e) :
       (\E p \in RangeC(e.result.procs) : p.name = n) => Pairs(ResProc(e, n).deps) = MergedPairs(ProcSeqs(e, n, "deps"))
C15_LoadsAtAll(e) == ~e.loadErr

MergeNames == {"C15_ProcessUnion", "C15_OverrideWins", "C15_EnvMergedByKeyByteExact", "C15_DepsMergedByKey", "C15_LoadsAtAll"}
MergeViolated(e) ==
  { n \in MergeNames :
      ~(CASE n = "C15_ProcessUnion" -> C15_ProcessUnion(e)
          [] n = "C15_OverrideWins" -> C15_OverrideWins(e)
          [] n = "C15_EnvMergedByKeyByteExact" -> C15_EnvMergedByKeyByteExact(e)
          [] n = "C15_DepsMergedByKey" -> C15_DepsMergedByKey(e)
          [] n = "C15_LoadsAtAll" -> C15_LoadsAtAll(e)) }

(***************************************************************************)
(* C16 loading: defaults, replica names, per-replica rendering             *)
(***************************************************************************)
Width(n) == IF n < 10 THEN 1 ELSE IF n < 100 THEN 2 ELSE IF n < 1000 THEN 3 ELSE 4
Pad(r, w) == LET s == ToString(r) IN
             IF w = 1 THEN s
             ELSE IF w = 2 THEN (IF r < 10 THEN "0" \o s ELSE s)
             ELSE IF w = 3 THEN (IF r < 10 THEN "00" \o s ELSE IF r < 100 THEN "0" \o s ELSE s)
             ELSE (IF r < 10 THEN "000" \o s ELSE IF r < 100 THEN "00" \o s ELSE IF r < 1000 THEN "0" \o s ELSE s)
RepName(base, r, n) == IF n <= 1 THEN base ELSE base \o "-" \o Pad(r, Width(n))

\* value of template variable x for replica r of a process: local vars shadow global ones
VarValue(e, p, r, x) ==
  IF x = "PC_REPLICA_NUM" THEN ToString(r)
  ELSE IF Has(p.vars, x) THEN Val(p.vars, x)
  ELSE IF Has(e.gvars, x) THEN Val(e.gvars, x)
  ELSE "<no value>"

RenderTokens(e, p, r, toks) ==
  ConcatAll([k \in DOMAIN toks |-> IF toks[k][1] = "lit" THEN toks[k][2] ELSE VarValue(e, p, r, toks[k][2])])

DeclProcs(e) == RangeC(e.procs)
EffReplicas(p) == IF p.replicas < 1 THEN 1 ELSE p.replicas
Load1(e) == RangeC(e.loads[1])

C16_Deterministic(e) == ~e.loadErr => \A k \in DOMAIN e.loads : e.loads[k] = e.loads[1]
C16_Defaults(e) ==
  ~e.loadErr =>
    \A x \in Load1(e) : /\ x.ns # "" /\ x.replicas >= 1 /\ x.lt > 0
                        /\ x.name \in { p.name : p \in DeclProcs(e) }
                        /\ (\A p \in DeclProcs(e) : (p.name = x.name /\ ~p.nsSet) => x.ns = "default")
C16_ReplicaNamesUniqueCanonical(e) ==
  ~e.loadErr =>
    \A p \in DeclProcs(e) :
       LET mine == { x \in Load1(e) : x.name = p.name }
           n == EffReplicas(p)
       IN /\ { x.rname : x \in mine } = { RepName(p.name, r, n) : r \in 0..(n - 1) }
          /\ Cardinality(mine) = n
          /\ \A x \in mine : x.rname = RepName(p.name, x.num, n) /\ x.replicas = n
C16_RenderedPerReplica(e) ==
  ~e.loadErr =>
    \A p \in DeclProcs(e) : \A x \in { y \in Load1(e) : y.name = p.name } :
       \A f \in RangeC(p.fields) :
          Val(x.fields, f[1]) = RenderTokens(e, p, x.num, f[2])
C16_NoAliasing(e) == ~e.loadErr => e.aliased = <<>>
C16_LoadsAtAll(e) == ~e.loadErr

LoadNames == {"C16_Deterministic", "C16_Defaults", "C16_ReplicaNamesUniqueCanonical", "C16_RenderedPerReplica",
              "C16_NoAliasing", "C16_LoadsAtAll"}
LoadViolated(e) ==
  { n \in LoadNames :
      ~(CASE n = "C16_Deterministic" -> C16_Deterministic(e)
          [] n = "C16_Defaults" -> C16_Defaults(e)
          [] n = "C16_ReplicaNamesUniqueCanonical" -> C16_ReplicaNamesUniqueCanonical(e)
          [] n = "C16_RenderedPerReplica" -> C16_RenderedPerReplica(e)
          [] n = "C16_NoAliasing" -> C16_NoAliasing(e)
          [] n = "C16_LoadsAtAll" -> C16_LoadsAtAll(e)) }

(***************************************************************************)
(* C17 environment: expansion at load time                                 *)
(***************************************************************************)
EnvLookup(e, n) == IF Has(e.environ, n) THEN Val(e.environ, n)
                   ELSE IF Has(e.dotenv, n) THEN Val(e.dotenv, n) ELSE ""

ExpandTok(e, t) ==
  CASE t[1] = "lit"    -> t[2]
    [] t[1] = "var"    -> IF e.noExpand THEN "$" \o t[2] ELSE EnvLookup(e, t[2])
    [] t[1] = "braced" -> IF e.noExpand THEN "${" \o t[2] \o "}" ELSE EnvLookup(e, t[2])
    [] t[1] = "esc"    -> IF e.noExpand THEN "$$" ELSE "$"
    [] OTHER -> ""
ExpandTokens(e, toks) == ConcatAll([k \in DOMAIN toks |-> ExpandTok(e, toks[k])])

C17_Expand(e) ==
  ~e.loadErr => \A f \in RangeC(e.fields) : Val(e.result, f[1]) = ExpandTokens(e, f[2])
C17_LoadsAtAll(e) == ~e.loadErr
EnvViolated(e) ==
  { n \in {"C17_Expand", "C17_LoadsAtAll"} :
      ~(CASE n = "C17_Expand" -> C17_Expand(e) [] n = "C17_LoadsAtAll" -> C17_LoadsAtAll(e)) }

(***************************************************************************)
(* C17 environment at launch: injected variables, precedence, working dir  *)
(***************************************************************************)
DeclOf(e, l) == CHOOSE p \in RangeC(e.procs) : p.name = l.proc
ExpectedEnv(e, l, k) ==
  LET p == DeclOf(e, l) IN
  IF Has(p.env, k) THEN {Val(p.env, k)}
  ELSE IF Has(e.global, k) \/ Has(e.envcmds, k)
       THEN (IF Has(e.global, k) THEN {Val(e.global, k)} ELSE {}) \cup (IF Has(e.envcmds, k) THEN {Val(e.envcmds, k)} ELSE {})
  ELSE IF Has(e.inherited, k) THEN {Val(e.inherited, k)}
  ELSE {"<unset>"}
C17_Injected(e) ==
  \A l \in RangeC(e.launches) :
     /\ Val(l.envEff, "PC_PROC_NAME") = l.proc
     /\ Val(l.envEff, "PC_REPLICA_NUM") = ToString(l.replica)
C17_Precedence(e) ==
  \A l \in RangeC(e.launches) : \A k \in RangeC(e.watch) :
     Val(l.envEff, k) \in ExpectedEnv(e, l, k)
C17_WorkingDir(e) == \A l \in RangeC(e.launches) : l.dir = DeclOf(e, l).dir
C17_AllLaunched(e) == { l.rname : l \in RangeC(e.launches) } = RangeC(e.expectLaunched)
LaunchEnvViolated(e) ==
  { n \in {"C17_Injected", "C17_Precedence", "C17_WorkingDir", "C17_AllLaunched"} :
      ~(CASE n = "C17_Injected" -> C17_Injected(e)
          [] n = "C17_Precedence" -> C17_Precedence(e)
          [] n = "C17_WorkingDir" -> C17_WorkingDir(e)
          [] n = "C17_AllLaunched" -> C17_AllLaunched(e)) }

(***************************************************************************)
(* C10 effective probe parameters                                          *)
(***************************************************************************)
C10_EffectiveParamsLegal(e) ==
  /\ e.out.period >= 1 /\ e.out.timeout >= 1 /\ e.out.success >= 1 /\ e.out.failure >= 1
  /\ e.out.initial >= 0
  /\ (e.out.numPort = 0 \/ (e.out.numPort >= 1 /\ e.out.numPort <= 65535))
\* a legal configured value is kept, not replaced
C10_LegalParamsKept(e) ==
  /\ (e.inp.period >= 1 => e.out.period = e.inp.period)
  /\ (e.inp.timeout >= 1 => e.out.timeout = e.inp.timeout)
  /\ (e.inp.success >= 1 => e.out.success = e.inp.success)
  /\ (e.inp.failure >= 1 => e.out.failure = e.inp.failure)
  /\ (e.inp.initial >= 0 => e.out.initial = e.inp.initial)
  /\ (e.inp.portNum >= 1 /\ e.inp.portNum <= 65535 => e.out.numPort = e.inp.portNum)
ProbeViolated(e) ==
  { n \in {"C10_EffectiveParamsLegal", "C10_LegalParamsKept"} :
      ~(CASE n = "C10_EffectiveParamsLegal" -> C10_EffectiveParamsLegal(e)
          [] n = "C10_LegalParamsKept" -> C10_LegalParamsKept(e)) }

(***************************************************************************)
(* C14 change detection (ProcessConfig.Compare): a process identical in    *)
(* every field is unchanged; one differing in a launch-relevant field is   *)
(* changed; other differences are not constrained.                         *)
(***************************************************************************)
C14_IdenticalIsEqual(e) == (e.changed = <<>>) => (e.equal /\ e.equalRev)
C14_RelevantChangeDetected(e) == (\E f \in RangeC(e.changed) : f \in RangeC(e.relevant)) => (~e.equal /\ ~e.equalRev)
CompareViolated(e) ==
  { n \in {"C14_IdenticalIsEqual", "C14_RelevantChangeDetected"} :
      ~(CASE n = "C14_IdenticalIsEqual" -> C14_IdenticalIsEqual(e)
          [] n = "C14_RelevantChangeDetected" -> C14_RelevantChangeDetected(e)) }

Detail(e) ==
  CASE e.kind = "plan" -> [loadErr |-> e.loadErr, noDeps |-> e.noDeps, nreq |-> Len(e.requested),
                           depOnReplicated |-> \E x \in RangeC(e.edges) : \E rp \in RangeC(e.replicas) : rp[1] = x[2] /\ rp[2] > 1]
    [] e.kind = "merge" -> [mode |-> e.mode, loadErr |-> e.loadErr]
    [] e.kind = "load" -> [loadErr |-> e.loadErr, aliased |-> e.aliased]
    [] e.kind = "env" -> [loadErr |-> e.loadErr, noExpand |-> e.noExpand]
    [] e.kind = "compare" -> [changed |-> e.changed, equal |-> e.equal]
    [] e.kind = "probe" -> [inp |-> e.inp, out |-> e.out]
    [] OTHER -> [kind |-> e.kind]
=============================================================================
