-------------------------------- MODULE PCApi --------------------------------
(***************************************************************************)
(* REST API and client (C19) as a refinement statement: each route is the  *)
(* corresponding operation of the runner.  A record holds three views of   *)
(* ONE operation: the HTTP exchange (status, canonical body), the direct   *)
(* call(s) the handler made on the runner (method, error, canonical        *)
(* result; logged by a recording decorator around the real runner), and -  *)
(* for operations issued through the bundled client - what the client      *)
(* returned.  Canonical = JSON with volatile fields (age, cpu, ...)        *)
(* removed and keys sorted; the predicates compare the views.              *)
(***************************************************************************)
EXTENDS Integers, Sequences, FiniteSets, TLC

NoCall(e) == Len(e.direct) = 0
D(e) == e.direct[1]
IsErr(d) == d.err # ""
Http(e) == e.via = "http"
Is4xx(s) == s >= 400 /\ s <= 499

C19_Never5xx(e)     == Http(e) => (e.status >= 200 /\ e.status < 500)
C19_StillServing(e) == e.liveOk
\* a well-formed request performs the corresponding operation on the runner (ShutDownProject answers first, then acts)
C19_SameOperation(e) ==
  (e.reqKind = "valid" /\ e.route # "ShutDownProject") => (~NoCall(e) /\ D(e).m = e.expectM)
\* malformed parameters / bodies are client errors with a message
C19_InvalidIs4xx(e) ==
  (Http(e) /\ e.reqKind # "valid") => (Is4xx(e.status) /\ (e.bodyErr # "" \/ e.status = 404))
\* a failed operation is reported as a client error with the runner's message
C19_ErrorIs4xx(e) ==
  (Http(e) /\ ~NoCall(e) /\ IsErr(D(e)) /\ ~D(e).partial) => (Is4xx(e.status) /\ e.bodyErr = D(e).err)
\* a successful (or partially successful) operation reports the runner's result
C19_SameResult(e) ==
  (Http(e) /\ ~NoCall(e) /\ (~IsErr(D(e)) \/ D(e).partial)) =>
     /\ e.status = (IF D(e).partial THEN 207 ELSE 200)
     /\ (D(e).json = "null" \/ e.bodyJson = D(e).json)
\* the bundled client decodes it back to the same value; error iff error, with the same message
C19_ClientDecodesSame(e) ==
  (e.via = "client") =>
     IF NoCall(e) THEN e.client.err # ""
     ELSE /\ ((IsErr(D(e)) /\ ~D(e).partial) <=> e.client.err # "")
          /\ ((IsErr(D(e)) /\ ~D(e).partial) => e.client.err = D(e).err)
          /\ ((~IsErr(D(e)) \/ D(e).partial) => (D(e).json = "null" \/ e.client.json = D(e).json))

ApiNames == {"C19_Never5xx", "C19_StillServing", "C19_SameOperation", "C19_InvalidIs4xx", "C19_ErrorIs4xx",
             "C19_SameResult", "C19_ClientDecodesSame"}
ApiViolated(e) ==
  { n \in ApiNames :
      ~(CASE n = "C19_Never5xx" -> C19_Never5xx(e)
          [] n = "C19_StillServing" -> C19_StillServing(e)
          [] n = "C19_SameOperation" -> C19_SameOperation(e)
          [] n = "C19_InvalidIs4xx" -> C19_InvalidIs4xx(e)
          [] n = "C19_ErrorIs4xx" -> C19_ErrorIs4xx(e)
          [] n = "C19_SameResult" -> C19_SameResult(e)
          [] n = "C19_ClientDecodesSame" -> C19_ClientDecodesSame(e)) }
\* the log stream route: a single-process, non-following stream delivers the same tail a direct call returns and ends
C19_LogStreamFaithful(e) == e.judged => (~e.dialErr /\ e.ended /\ e.got = e.direct)
C19_LogStreamStillServing(e) == e.liveOk
ApiWsViolated(e) ==
  { n \in {"C19_LogStreamFaithful", "C19_LogStreamStillServing"} :
      ~(CASE n = "C19_LogStreamFaithful" -> C19_LogStreamFaithful(e)
          [] n = "C19_LogStreamStillServing" -> C19_LogStreamStillServing(e)) }
ApiWsDetail(e) == [names |-> e.names, judged |-> e.judged, dialErr |-> e.dialErr, ended |-> e.ended, got |-> Len(e.got), direct |-> Len(e.direct)]
ApiDetail(e) == [via |-> e.via, route |-> e.route, reqKind |-> e.reqKind, status |-> e.status,
                 directErr |-> IF NoCall(e) THEN "<no call>" ELSE D(e).err, clientErr |-> e.client.err]
=============================================================================
