-------------------------------- MODULE PCStop --------------------------------
(***************************************************************************)
(* OS-level stop (C06): signal, process group, SIGKILL escalation,         *)
(* shutdown command.                                                       *)
(*                                                                         *)
(* Design model: one stop request on a process tree whose members either   *)
(* die on the configured signal or ignore it; TLC enumerates the parameter *)
(* space (signal in/out of range, parent_only, time-out, command outcome,  *)
(* tree, who ignores) as initial states and every order of member deaths.  *)
(*                                                                         *)
(* Record predicates: one `osstop` record per real scenario (real bash     *)
(* trees that log every signal they receive; deaths observed via /proc).   *)
(* Times are milliseconds since the scenario started.                      *)
(***************************************************************************)
EXTENDS Integers, Sequences, FiniteSets, TLC

RangeT(f) == { f[x] : x \in DOMAIN f }
Eff(sig) == IF sig >= 1 /\ sig <= 31 THEN sig ELSE 15

(***************************************************************************)
(* design model                                                            *)
(***************************************************************************)
CONSTANTS Members, Signals, Timeouts, CmdOutcomes

VARIABLES par,      \* parameters: [signal, parentOnly, timeout, cmd, ignores]
          alive,    \* members alive
          recvd,    \* member -> set of signals delivered
          phase,    \* "idle" | "cmd" | "signalled" | "waiting" | "killed" | "returned"
          clock,    \* 0 at the stop request
          killAt    \* clock value at which SIGKILL was sent (-1: never)
svars == <<par, alive, recvd, phase, clock, killAt>>

Scope == IF par.parentOnly THEN {"parent"} ELSE Members

SInit == /\ par \in [signal : Signals, parentOnly : BOOLEAN, timeout : Timeouts, cmd : CmdOutcomes, ignores : SUBSET Members]
         /\ alive = Members /\ recvd = [m \in Members |-> {}] /\ phase = "idle" /\ clock = 0 /\ killAt = -1

StopRequested ==
  /\ phase = "idle"
  /\ IF par.cmd # "none"
     THEN phase' = "cmd" /\ UNCHANGED <<alive, recvd, killAt>>
     ELSE /\ recvd' = [m \in Members |-> IF m \in Scope /\ m \in alive THEN recvd[m] \cup {Eff(par.signal)} ELSE recvd[m]]
          /\ phase' = IF par.timeout > 0 THEN "waiting" ELSE "returned"
          /\ UNCHANGED <<alive, killAt>>
  /\ UNCHANGED <<par, clock>>
CmdEnds ==        \* the shutdown command finished: ok -> done; fails / hangs (timed out) -> SIGKILL to the group
  /\ phase = "cmd"
  /\ IF par.cmd = "ok"
     THEN /\ alive' = {} /\ phase' = "returned" /\ UNCHANGED <<recvd, killAt>>
     ELSE /\ recvd' = [m \in Members |-> IF m \in alive THEN recvd[m] \cup {9} ELSE recvd[m]]
          /\ killAt' = clock /\ phase' = "returned" /\ UNCHANGED alive
  /\ UNCHANGED <<par, clock>>
MemberDies(m) ==  \* a member that got a signal it does not ignore (or SIGKILL) dies
  /\ m \in alive
  /\ (9 \in recvd[m] \/ (recvd[m] # {} /\ m \notin par.ignores))
  /\ alive' = alive \ {m} /\ UNCHANGED <<par, recvd, phase, clock, killAt>>
Tick == /\ phase = "waiting" /\ clock < par.timeout /\ clock' = clock + 1
        /\ UNCHANGED <<par, alive, recvd, phase, killAt>>
ExitedInTime ==   \* the process ended before the time-out: the pending kill is cancelled
  /\ phase = "waiting" /\ "parent" \notin alive
  /\ phase' = "returned" /\ UNCHANGED <<par, alive, recvd, clock, killAt>>
TimeoutFires ==
  /\ phase = "waiting" /\ clock = par.timeout /\ "parent" \in alive
  /\ recvd' = [m \in Members |-> IF m \in Scope /\ m \in alive THEN recvd[m] \cup {9} ELSE recvd[m]]
  /\ killAt' = clock /\ phase' = "returned" /\ UNCHANGED <<par, alive, clock>>
SNext == StopRequested \/ CmdEnds \/ Tick \/ ExitedInTime \/ TimeoutFires \/ \E m \in Members : MemberDies(m)
SSpec == SInit /\ [][SNext]_svars

C06_Design_KillNotBeforeTimeout == (killAt >= 0 /\ par.cmd = "none") => killAt >= par.timeout
C06_Design_KillOnlyIfCmdFailed == (par.cmd = "ok") => killAt = -1
C06_Design_OnlyConfiguredSignal ==
  \A m \in Members : recvd[m] \subseteq {Eff(par.signal), 9} /\ (par.parentOnly /\ m # "parent" /\ par.cmd = "none" => recvd[m] = {})
\* every member the configuration can reach is eventually gone (checked at quiescence)
C06_Design_ReachableDie ==
  (~ENABLED SNext) =>
     \A m \in Members :
        (m \in Scope /\ par.cmd = "none" /\ (m \notin par.ignores \/ (par.timeout > 0 /\ "parent" \in par.ignores))) => m \notin alive

MCSignals == {0, 1, 2, 15, 31, 32, -1}

(***************************************************************************)
(* record predicates                                                       *)
(***************************************************************************)
Mem(e) == RangeT(e.members)
Parent(e) == CHOOSE m \in Mem(e) : m.name = "parent"
Sigs(m) == { g[1] : g \in RangeT(m.got) }
Killed(m) == m.diedAt >= 0 /\ \A g \in RangeT(m.got) : g[1] = 10 \/ m.ignores  \* died without handling a dying signal
AllStarted(e) == \A m \in Mem(e) : m.started
Scoped(e, m) == ~e.parentOnly \/ m.name = "parent"
ProjectLevel(e) == e.trigger # "stop"

C06_SignalAsConfigured(e) ==
  (AllStarted(e) /\ e.command = "none") =>
     /\ Len(Parent(e).got) >= 1 /\ Parent(e).got[1][1] = e.eff
     /\ \A m \in Mem(e) : Sigs(m) \subseteq {e.eff}
C06_GroupUnlessParentOnly(e) ==
  (AllStarted(e) /\ e.command = "none") =>
     \A m \in Mem(e) : m.name # "parent" => ((e.eff \in Sigs(m)) <=> ~e.parentOnly)
C06_KillNotBeforeTimeout(e) ==
  (AllStarted(e) /\ e.command = "none" /\ e.timeout > 0) =>
     \A m \in Mem(e) : (m.ignores /\ m.diedAt >= 0 /\ Scoped(e, m)) => m.diedAt - e.tStop >= e.timeout * 1000
C06_KillAfterTimeoutIfAlive(e) ==
  (AllStarted(e) /\ e.command = "none" /\ e.timeout > 0 /\ Parent(e).ignores) =>
     \A m \in Mem(e) : Scoped(e, m) => ~m.aliveAtEnd
C06_CmdEnvAndDir(e) ==
  (AllStarted(e) /\ e.command # "none") => (e.cmd.ran /\ e.cmd.procName = e.procName /\ e.cmd.pwd = e.wd)
C06_KillOnlyIfCmdFailed(e) ==
  (AllStarted(e) /\ e.command # "none") =>
     IF e.command = "ok"
     THEN \A m \in Mem(e) : 10 \in Sigs(m) /\ ~m.aliveAtEnd          \* everyone was stopped gracefully by the command
     ELSE \A m \in Mem(e) : ~m.aliveAtEnd /\ 10 \notin Sigs(m)       \* failed / timed out: SIGKILL to the group
C06_NoSurvivorAfterShutdown(e) ==
  (AllStarted(e) /\ ProjectLevel(e) /\ e.returned) =>
     \A m \in Mem(e) :
        (Scoped(e, m) /\ e.command = "none" /\ (~m.ignores \/ (e.timeout > 0 /\ Parent(e).ignores))) => ~m.aliveAtEnd
C06_StopReturns(e) == e.returned

StopNames == {"C06_SignalAsConfigured", "C06_GroupUnlessParentOnly", "C06_KillNotBeforeTimeout", "C06_KillAfterTimeoutIfAlive",
              "C06_CmdEnvAndDir", "C06_KillOnlyIfCmdFailed", "C06_NoSurvivorAfterShutdown", "C06_StopReturns"}
StopViolated(e) ==
  { n \in StopNames :
      ~(CASE n = "C06_SignalAsConfigured" -> C06_SignalAsConfigured(e)
          [] n = "C06_GroupUnlessParentOnly" -> C06_GroupUnlessParentOnly(e)
          [] n = "C06_KillNotBeforeTimeout" -> C06_KillNotBeforeTimeout(e)
          [] n = "C06_KillAfterTimeoutIfAlive" -> C06_KillAfterTimeoutIfAlive(e)
          [] n = "C06_CmdEnvAndDir" -> C06_CmdEnvAndDir(e)
          [] n = "C06_KillOnlyIfCmdFailed" -> C06_KillOnlyIfCmdFailed(e)
          [] n = "C06_NoSurvivorAfterShutdown" -> C06_NoSurvivorAfterShutdown(e)
          [] n = "C06_StopReturns" -> C06_StopReturns(e)) }
StopDetail(e) == [trigger |-> e.trigger, signal |-> e.signal, parentOnly |-> e.parentOnly, timeout |-> e.timeout, command |-> e.command,
                  ignores |-> { m.name : m \in { x \in Mem(e) : x.ignores } }, n |-> Len(e.members)]
=============================================================================
