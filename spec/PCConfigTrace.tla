--------------------------- MODULE PCConfigTrace ---------------------------
(***************************************************************************)
(* Record validation for the pure / sequential configuration components    *)
(* (C07, C15, C16, C17, parameter part of C10, change detection of C14).   *)
(* The harness calls the real functions and writes one record per call;    *)
(* each record kind has its predicates in PCPlan / PCConfig.  The state is *)
(* just the position in the record stream: records are independent.        *)
(***************************************************************************)
EXTENDS Integers, Sequences, FiniteSets, TLC, Json, PCPlan, PCConfig, PCScale, PCOutputRec, PCApi, PCStopRec, PCConcRec

CONSTANT TraceFile
Trace == ndJsonDeserialize(TraceFile)

VARIABLES l
vars == <<l>>

Viol(e) ==
  CASE e.kind = "plan"  -> PlanViolated(e)
    [] e.kind = "merge" -> MergeViolated(e)
    [] e.kind = "load"  -> LoadViolated(e)
    [] e.kind = "env"   -> EnvViolated(e)
    [] e.kind = "launchenv" -> LaunchEnvViolated(e)
    [] e.kind = "probe" -> ProbeViolated(e)
    [] e.kind = "compare" -> CompareViolated(e)
    [] e.kind = "scale" -> ScaleViolated(e)
    [] e.kind = "update" -> UpdateViolated(e)
    [] e.kind = "scalegate" -> ScaleGateViolated(e)
    [] e.kind = "ordshut" -> OrdShutViolated(e)
    [] e.kind = "output" -> OutputViolated(e)
    [] e.kind = "api" -> ApiViolated(e)
    [] e.kind = "apiws" -> ApiWsViolated(e)
    [] e.kind = "osstop" -> StopViolated(e)
    [] e.kind = "conc" -> ConcViolated(e)
    [] OTHER -> {}

Init == l = 1
Next ==
  /\ l <= Len(Trace)
  /\ LET e == Trace[l]  v == Viol(e) IN
       IF v = {} THEN TRUE
       ELSE PrintT("VIOL ## " \o e.id \o " ## " \o ToString(l) \o " ## " \o ToString(v) \o " ## "
                   \o ToString([kind |-> e.kind, detail |-> IF e.kind \in {"scale", "update", "scalegate"} THEN ScaleDetail(e) ELSE IF e.kind = "ordshut" THEN OrdShutDetail(e) ELSE IF e.kind = "output" THEN OutputDetail(e) ELSE IF e.kind = "api" THEN ApiDetail(e) ELSE IF e.kind = "apiws" THEN ApiWsDetail(e) ELSE IF e.kind = "osstop" THEN StopDetail(e) ELSE IF e.kind = "conc" THEN ConcDetail(e) ELSE Detail(e)]) \o " ## " \o ToString([rec |-> l]))
  /\ l' = l + 1
Spec == Init /\ [][Next]_vars
=============================================================================
