SPECIFICATION LSpec
CONSTANT Threads <- MCThreads4
INVARIANTS C20_Design_LockOwner
CHECK_DEADLOCK TRUE
