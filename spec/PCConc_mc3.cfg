SPECIFICATION LSpec
CONSTANT Threads <- MCThreads3
INVARIANTS C20_Design_LockOwner
CHECK_DEADLOCK TRUE
