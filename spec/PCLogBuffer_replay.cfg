\* model -> code direction: TLC -simulate behaviours of the design model with the implementation's
\* slack (100) are stepped through the real ProcessLogBuffer (tools/logbuf_replay.py)
SPECIFICATION Spec
CONSTANTS
  Size = 3
  Slack = 100
  MaxWrites = 215
  Observers = {o1, o2}
  Tails = {0, 1, 2, 50, 150}
INVARIANTS C18_Recent C18_FollowerNoGapNoDup
CHECK_DEADLOCK FALSE
