SPECIFICATION Spec
CONSTANTS
  Configs <- Shutdown2Configs
  Codes <- Codes01
  MaxLaunch = 2
  MaxInst = 2
  MaxApi = 1
  ApiOps <- ShutOnly
  SerializeApi = TRUE
  StartFailures = FALSE
INVARIANTS AllInvs AtRestOK
CHECK_DEADLOCK FALSE
