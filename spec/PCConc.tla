-------------------------------- MODULE PCConc --------------------------------
(***************************************************************************)
(* Concurrent API use (C20), the part this family can decide: no crash     *)
(* (panic / fatal runtime error) and no call blocking forever.             *)
(*                                                                         *)
(* Design model: the mutexes of the runner and of a process as explicit    *)
(* variables; every API operation and every process goroutine is a small   *)
(* program of acquire / release / await / set instructions that mirrors    *)
(* the order in which the code takes its locks and waits.  TLC explores    *)
(* all interleavings of a set of threads and reports a deadlock when some  *)
(* thread can never finish.                                                *)
(*                                                                         *)
(* Record predicates: one `conc` record per batch of operations run        *)
(* concurrently against the real runner (in a child process, so that a     *)
(* fatal runtime error is observed as a record, too).                      *)
(***************************************************************************)
EXTENDS Integers, Sequences, FiniteSets, TLC

(***************************************************************************)
(* design model                                                            *)
(***************************************************************************)
CONSTANT Threads       \* thread name -> program (sequence of instructions)

VARIABLES pcT,         \* thread -> index of the next instruction
          holder,      \* lock -> thread or "none"
          flags        \* set of condition flags that have been set

lvars == <<pcT, holder, flags>>
Locks == {"runProc", "doneProc", "states", "logs", "procConf", "pMutex", "stateMtx", "logBuf"}

Instr(t) == Threads[t][pcT[t]]
Finished(t) == pcT[t] > Len(Threads[t])

LInit == /\ pcT = [t \in DOMAIN Threads |-> 1]
         /\ holder = [l \in Locks |-> "none"]
         /\ flags = {}

StepT(t) ==
  /\ ~Finished(t)
  /\ LET i == Instr(t) IN
     CASE i[1] = "acq" -> /\ holder[i[2]] = "none"
                          /\ holder' = [holder EXCEPT ![i[2]] = t] /\ UNCHANGED flags
       [] i[1] = "rel" -> /\ holder[i[2]] = t
                          /\ holder' = [holder EXCEPT ![i[2]] = "none"] /\ UNCHANGED flags
       [] i[1] = "set" -> /\ flags' = flags \cup {i[2]} /\ UNCHANGED holder
       [] i[1] = "await" -> /\ i[2] \in flags /\ UNCHANGED <<holder, flags>>
       [] OTHER -> FALSE
  /\ pcT' = [pcT EXCEPT ![t] = @ + 1]
AllFinished == \A t \in DOMAIN Threads : Finished(t)
\* when every thread has run to completion the system stutters; any other state without a successor is a
\* deadlock, which TLC reports itself (CHECK_DEADLOCK TRUE): some call would block forever
LNext == (\E t \in DOMAIN Threads : StepT(t)) \/ (AllFinished /\ UNCHANGED lvars)
LSpec == LInit /\ [][LNext]_lvars
C20_Design_LockOwner == \A l \in Locks : holder[l] = "none" \/ holder[l] \in DOMAIN Threads

\* ---- programs (the order of lock acquisitions and waits in project_runner.go / process.go)
A(l) == <<"acq", l>>
R(l) == <<"rel", l>>
\* a process goroutine from launch to its epilogue: state changes and log writes while running, onProcessEnd sets done
\* under pMutex, then addDoneProcess, (exit_on_* would call ShutDownProject here), WaitGroup.Done, removeRunningProcess
ProcGoroutine(p) ==
  << A("stateMtx"), R("stateMtx"), A("logBuf"), R("logBuf"), <<"await", "exited_" \o p>>,
     A("pMutex"), R("pMutex"), A("stateMtx"), R("stateMtx"), A("pMutex"), <<"set", "done_" \o p>>, R("pMutex"),
     A("doneProc"), R("doneProc"), A("runProc"), R("runProc") >>
\* the command dies some time after it was signalled
Command(p) == << <<"await", "signalled_" \o p>>, <<"set", "exited_" \o p>> >>
\* ShutDownProject: holds runProcMutex for the whole shutdown; stop each process, then wait for their completion
Shutdown(ps) ==
  << A("runProc") >>
  \o [k \in 1..(2 * Len(ps)) |-> IF k % 2 = 1 THEN A("stateMtx") ELSE R("stateMtx")]
  \o [k \in 1..Len(ps) |-> <<"set", "signalled_" \o ps[k]>>]
  \o [k \in 1..Len(ps) |-> <<"await", "done_" \o ps[k]>>]
  \o << R("runProc") >>
\* StopProcess: lookup under runProcMutex, then stop (state mutex, signal)
StopOp(p) == << A("runProc"), R("runProc"), A("stateMtx"), R("stateMtx"), <<"set", "signalled_" \o p>> >>
\* RestartProcess: lookup, stop, wait for completion, register the new instance
RestartOp(p) == StopOp(p) \o << <<"await", "done_" \o p>>, A("runProc"), R("runProc") >>
\* GetProcessState of a running process: lookup, then the state mutex; GetProcessesState does it for every process
GetStateOp == << A("runProc"), R("runProc"), A("stateMtx"), R("stateMtx"), A("states"), R("states") >>
\* a log subscription: the log buffer's mutex (observer callbacks run under it)
LogSubOp == << A("logs"), R("logs"), A("logBuf"), R("logBuf") >>
\* ScaleProcess down: configuration mutex, then removeProcess (logs, conf, lookup, stop, wait)
ScaleDownOp(p) == << A("procConf"), R("procConf"), A("logs"), R("logs"), A("procConf"), R("procConf") >> \o StopOp(p)
                  \o << <<"await", "done_" \o p>>, A("states"), R("states") >>

MCThreads1 ==
  [ proc_a |-> ProcGoroutine("a"), cmd_a |-> Command("a"), shutdown |-> Shutdown(<<"a">>),
    restart_a |-> RestartOp("a"), state |-> GetStateOp ]
MCThreads2 ==
  [ proc_a |-> ProcGoroutine("a"), cmd_a |-> Command("a"), proc_b |-> ProcGoroutine("b"), cmd_b |-> Command("b"),
    shutdown |-> Shutdown(<<"a", "b">>), logsub |-> LogSubOp ]
MCThreads3 ==
  [ proc_b |-> ProcGoroutine("b"), cmd_b |-> Command("b"), scale_b |-> ScaleDownOp("b"),
    state |-> GetStateOp, logsub |-> LogSubOp, stop_b |-> StopOp("b") ]

(***************************************************************************)
(* record predicates                                                       *)
(***************************************************************************)
C20_NoCrash(e) == e.panics = <<>> /\ e.fatal = ""
C20_EveryCallReturns(e) == e.blocked = <<>> /\ ~e.runBlocked
ConcViolated(e) ==
  { n \in {"C20_NoCrash", "C20_EveryCallReturns"} :
      ~(CASE n = "C20_NoCrash" -> C20_NoCrash(e) [] n = "C20_EveryCallReturns" -> C20_EveryCallReturns(e)) }
ConcDetail(e) == [ops |-> e.ops, fatal |-> e.fatal, fatalSite |-> e.fatalSite,
                  panicSites |-> { e.panics[k].site : k \in DOMAIN e.panics }, blocked |-> e.blocked, runBlocked |-> e.runBlocked]
=============================================================================
