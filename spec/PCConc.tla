-------------------------------- MODULE PCConc --------------------------------
(***************************************************************************)
(* Concurrent API use (C20), the part this family can decide: no crash     *)
(* (panic / fatal runtime error) and no call blocking forever.             *)
(*                                                                         *)
(* Design model: the mutexes of the runner and of a process as explicit    *)
(* variables; every API operation and every process goroutine is a small   *)
(* program of acquire / release / await / set instructions that mirrors    *)
(* the order in which the code takes its locks and waits.  TLC explores    *)
(* all interleavings of a set of threads and reports a deadlock when some  *)
(* thread can never finish.                                                *)
(*                                                                         *)
(* Record predicates: one `conc` record per batch of operations run        *)
(* concurrently against the real runner (in a child process, so that a     *)
(* fatal runtime error is observed as a record, too).                      *)
(***************************************************************************)
EXTENDS Integers, Sequences, FiniteSets, TLC

(***************************************************************************)
(* design model                                                            *)
(***************************************************************************)
CONSTANT Threads       \* thread name -> program (sequence of instructions)

VARIABLES pcT,         \* thread -> index of the next instruction
          holder,      \* lock -> thread or "none"
          flags        \* set of condition flags that have been set

lvars == <<pcT, holder, flags>>
Locks == {"runProc", "doneProc", "states", "logs", "procConf", "update", "wg", "pMutex", "stateMtx", "logBuf"}

Instr(t) == Threads[t][pcT[t]]
Finished(t) == pcT[t] > Len(Threads[t])

LInit == /\ pcT = [t \in DOMAIN Threads |-> 1]
         /\ holder = [l \in Locks |-> "none"]
         /\ flags = {}

StepT(t) ==
  /\ ~Finished(t)
  /\ LET i == Instr(t) IN
     CASE i[1] = "acq" -> /\ holder[i[2]] = "none"
                          /\ holder' = [holder EXCEPT ![i[2]] = t] /\ UNCHANGED flags
       [] i[1] = "rel" -> /\ holder[i[2]] = t
                          /\ holder' = [holder EXCEPT ![i[2]] = "none"] /\ UNCHANGED flags
       [] i[1] = "set" -> /\ flags' = flags \cup {i[2]} /\ UNCHANGED holder
       [] i[1] = "await" -> /\ i[2] \in flags /\ UNCHANGED <<holder, flags>>
       [] OTHER -> FALSE
  /\ pcT' = [pcT EXCEPT ![t] = @ + 1]
AllFinished == \A t \in DOMAIN Threads : Finished(t)
\* when every thread has run to completion the system stutters; any other state without a successor is a
\* deadlock, which TLC reports itself (CHECK_DEADLOCK TRUE): some call would block forever
LNext == (\E t \in DOMAIN Threads : StepT(t)) \/ (AllFinished /\ UNCHANGED lvars)
LSpec == LInit /\ [][LNext]_lvars
C20_Design_LockOwner == \A l \in Locks : holder[l] = "none" \/ holder[l] \in DOMAIN Threads

\* ---- programs (the order of lock acquisitions and waits in project_runner.go / process.go)
A(l) == <<"acq", l>>
R(l) == <<"rel", l>>
AR(l) == << A(l), R(l) >>
\* a process goroutine from launch to its epilogue: state changes and log writes while running; onProcessEnd claims the
\* end under stateMtx, sets done under pMutex; then addDoneProcess, (exit_on_* would call ShutDownProject here),
\* the wait group, removeRunningProcess
ProcGoroutine(p) ==
  AR("stateMtx") \o AR("logBuf") \o << <<"await", "exited_" \o p>> >>
  \o AR("pMutex") \o AR("stateMtx") \o AR("stateMtx") \o << A("pMutex"), <<"set", "done_" \o p>>, R("pMutex") >>
  \o AR("doneProc") \o AR("wg") \o AR("runProc")
\* the command dies some time after it was signalled
Command(p) == << <<"await", "signalled_" \o p>>, <<"set", "exited_" \o p>> >>
\* ShutDownProject: holds runProcMutex for the whole shutdown; stop each process, then wait for their completion
Shutdown(ps) ==
  << A("runProc") >>
  \o [k \in 1..(2 * Len(ps)) |-> IF k % 2 = 1 THEN A("stateMtx") ELSE R("stateMtx")]
  \o [k \in 1..Len(ps) |-> <<"set", "signalled_" \o ps[k]>>]
  \o [k \in 1..Len(ps) |-> <<"await", "done_" \o ps[k]>>]
  \o << R("runProc") >>
\* StopProcess: lookup under runProcMutex, then stop (state mutex, signal)
StopOp(p) == AR("runProc") \o AR("stateMtx") \o << <<"set", "signalled_" \o p>> >>
\* runProcess: log buffer lookup, state lookup (running registry, state map), then the atomic check-and-register:
\* runProcMutex with the predecessor's pMutex (isDone) nested in it, then the wait group
RunProcess == AR("logs") \o AR("runProc") \o AR("states") \o << A("runProc"), A("pMutex"), R("pMutex"), R("runProc") >> \o AR("wg")
\* runProcessByName (start / restart): updateMutex around the configuration lookup and runProcess
RunByName == << A("update") >> \o AR("procConf") \o RunProcess \o << R("update") >>
StartOp == AR("runProc") \o RunByName
\* RestartProcess: lookup, stop, wait for completion, then runProcessByName
RestartOp(p) == StopOp(p) \o << <<"await", "done_" \o p>> >> \o RunByName
\* GetProcessState of a running process: lookup, then the state mutex; GetProcessesState snapshots the configuration first
GetStateOp == AR("procConf") \o AR("runProc") \o AR("stateMtx") \o AR("states")
\* a log subscription: the log map, then the log buffer's mutex (observer callbacks run under it)
LogSubOp == AR("logs") \o AR("logBuf")
\* removeProcess: logs, configuration, lookup, stop, wait, state entry
RemoveProcess(p) == AR("logs") \o AR("procConf") \o StopOp(p) \o << <<"await", "done_" \o p>> >> \o AR("states")
\* renameProcess (scale): registry remove / add, logs, state (statesMutex is held to the end of the function), configuration
Rename == AR("runProc") \o << A("runProc"), A("pMutex"), R("pMutex"), R("runProc") >> \o AR("logs") \o AR("logs")
          \o AR("runProc") \o AR("stateMtx") \o << A("states"), A("procConf"), R("procConf"), R("states") >>
\* ScaleProcess down under updateMutex: configuration reads, removeProcess of the surplus replica, replica counts, rename
ScaleDownOp(p) == << A("update") >> \o AR("procConf") \o AR("procConf") \o AR("procConf") \o RemoveProcess(p)
                  \o AR("procConf") \o AR("procConf") \o Rename \o << R("update") >>
\* UpdateProject replacing one process under updateMutex: compare, removeProcess, addProcessAndRun
UpdateOp(p) == << A("update") >> \o AR("procConf") \o AR("procConf") \o RemoveProcess(p)
               \o AR("states") \o AR("procConf") \o AR("logs") \o RunProcess \o << R("update") >>
\* Run() returning: waits for the process goroutines
RunWait(ps) == [k \in 1..Len(ps) |-> <<"await", "done_" \o ps[k]>>] \o AR("wg")

MCThreads1 ==
  [ proc_a |-> ProcGoroutine("a"), cmd_a |-> Command("a"), shutdown |-> Shutdown(<<"a">>),
    restart_a |-> RestartOp("a"), state |-> GetStateOp ]
MCThreads2 ==
  [ proc_a |-> ProcGoroutine("a"), cmd_a |-> Command("a"), proc_b |-> ProcGoroutine("b"), cmd_b |-> Command("b"),
    shutdown |-> Shutdown(<<"a", "b">>), logsub |-> LogSubOp ]
MCThreads3 ==
  [ proc_b |-> ProcGoroutine("b"), cmd_b |-> Command("b"), scale_b |-> ScaleDownOp("b"),
    state |-> GetStateOp, stop_b |-> StopOp("b") ]
MCThreads4 ==
  [ proc_a |-> ProcGoroutine("a"), cmd_a |-> Command("a"), update_a |-> UpdateOp("a"),
    restart_a |-> RestartOp("a"), run |-> RunWait(<<"a">>) ]
MCThreads5 ==
  [ proc_a |-> ProcGoroutine("a"), cmd_a |-> Command("a"), scale_a |-> ScaleDownOp("a"),
    start |-> StartOp, shutdown |-> Shutdown(<<"a">>) ]

=============================================================================
