------------------------------- MODULE PCPlan -------------------------------
(***************************************************************************)
(* Run plan (C07): pure operators over a dependency graph and the record   *)
(* predicates evaluated on every `plan` record produced by the real        *)
(* loader / NewProjectRunner / GetDependenciesOrderNames / Run().          *)
(* A record carries: nodes, edges <<p, k>> (p depends on k; k may be       *)
(* undefined), markings, the request, and what the code did.               *)
(***************************************************************************)
EXTENDS Integers, Sequences, FiniteSets, TLC

RangeP(f) == { f[x] : x \in DOMAIN f }

Edges(e)   == { <<x[1], x[2]>> : x \in RangeP(e.edges) }
Nodes(e)   == RangeP(e.nodes)
DefEdges(e) == { x \in Edges(e) : x[2] \in Nodes(e) }

\* transitive closure by repeated squaring (graphs have at most 8 nodes)
RECURSIVE TCIter(_, _)
TCIter(R, N) ==
  LET R2 == R \cup { <<a, c>> \in N \X N : \E b \in N : <<a, b>> \in R /\ <<b, c>> \in R }
  IN IF R2 = R THEN R ELSE TCIter(R2, N)
TC(R, N) == TCIter(R, N)

HasCycle(e) == \E n \in Nodes(e) : <<n, n>> \in TC(DefEdges(e), Nodes(e))
Dangling(e) == \E x \in Edges(e) : x[2] \notin Nodes(e)

\* requested processes plus everything they transitively depend on
Closure(e, R) == R \cup { k \in Nodes(e) : \E p \in R : <<p, k>> \in TC(DefEdges(e), Nodes(e)) }

BaseOf(e, r) == LET m == { x \in RangeP(e.base) : x[1] = r } IN
                IF m = {} THEN r ELSE (CHOOSE x \in m : TRUE)[2]
ReplicasOf(e, S) == { x[1] : x \in { y \in RangeP(e.base) : y[2] \in S } }

Req(e)  == RangeP(e.requested)
Dis(e)  == RangeP(e.disabled)
Fg(e)   == RangeP(e.foreground)
Loaded(e) == ~e.loadErr /\ ~e.runnerErr
Ran(e) == Loaded(e) /\ ~e.runSkipped /\ ~e.runStuck

Selected(e) == IF Req(e) = {} THEN Nodes(e)
               ELSE IF e.noDeps THEN Req(e) ELSE Closure(e, Req(e))
\* processes outside the selected namespaces are removed after validation: they are never started
Outside(e) == RangeP(e.outside)
\* a selected process depending on a process outside the selection: the statement does not say what is "to run"
\* then (the code refuses to build a run order and starts nothing); only "never started" is demanded
CrossNS(e) == \E x \in Edges(e) : x[1] \notin Outside(e) /\ x[2] \in Outside(e)
ExpectedStarted(e) ==
  (IF Req(e) = {} THEN Nodes(e) \ (Dis(e) \cup Fg(e)) ELSE Selected(e) \ Fg(e)) \ Outside(e)

\* ---- the predicates
C07_RejectIffCycleOrDangling(e) == e.loadErr <=> (HasCycle(e) \/ Dangling(e))

NoDup(s) == \A a, b \in DOMAIN s : a # b => s[a] # s[b]
Pos(s, x) == CHOOSE k \in DOMAIN s : s[k] = x
C07_OrderIsTopologicalAndExact(e) ==
  (Loaded(e) /\ ~CrossNS(e)) =>
    /\ NoDup(e.order)
    /\ RangeP(e.order) = ReplicasOf(e, ExpectedStarted(e))
    /\ (~e.noDeps =>
          \A a \in RangeP(e.order) : \A b \in RangeP(e.order) :
             <<BaseOf(e, a), BaseOf(e, b)>> \in DefEdges(e) => Pos(e.order, b) < Pos(e.order, a))

C07_SelectionIsClosure(e) ==
  (Ran(e) /\ ~CrossNS(e)) =>
    /\ RangeP(e.launched) = ReplicasOf(e, ExpectedStarted(e))
    /\ \A r \in ReplicasOf(e, Nodes(e) \ Selected(e)) : r \in RangeP(e.disabledAfter)
    /\ RangeP(e.launched) \cap RangeP(e.disabledAfter) = {}

\* a loaded plan can be run to completion
C07_RunCompletes(e) == Loaded(e) => ~e.runStuck

C07_DeferredNeverLaunched(e) ==
  Ran(e) =>
    /\ ReplicasOf(e, Fg(e)) \cap RangeP(e.launched) = {}
    /\ (Req(e) = {} => ReplicasOf(e, Dis(e)) \cap RangeP(e.launched) = {})
    /\ RangeP(e.launchedBase) \cap Outside(e) = {}

PlanViolated(e) ==
  { n \in {"C07_RejectIffCycleOrDangling", "C07_OrderIsTopologicalAndExact", "C07_SelectionIsClosure",
           "C07_DeferredNeverLaunched", "C07_RunCompletes"} :
      ~(CASE n = "C07_RejectIffCycleOrDangling" -> C07_RejectIffCycleOrDangling(e)
          [] n = "C07_OrderIsTopologicalAndExact" -> C07_OrderIsTopologicalAndExact(e)
          [] n = "C07_SelectionIsClosure" -> C07_SelectionIsClosure(e)
          [] n = "C07_DeferredNeverLaunched" -> C07_DeferredNeverLaunched(e)
          [] n = "C07_RunCompletes" -> C07_RunCompletes(e)) }
=============================================================================
