SPECIFICATION Spec
CONSTANTS
  Configs <- RestartConfigs
  Codes <- Codes01
  MaxLaunch = 3
  MaxInst = 1
  MaxApi = 1
  ApiOps <- ShutOnly
  SerializeApi = TRUE
  StartFailures = TRUE
INVARIANTS AllInvs AtRestOK
CHECK_DEADLOCK FALSE
