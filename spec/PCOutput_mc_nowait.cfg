SPECIFICATION OSpec
CONSTANTS
  Streams = {"o", "e"}
  MaxLines = 2
  WaitFor = {"o"}
INVARIANT C11_Design_AllLinesOnceInOrder
CHECK_DEADLOCK FALSE
