SPECIFICATION LSpec
CONSTANT Threads <- MCThreads2
INVARIANTS C20_Design_LockOwner
CHECK_DEADLOCK TRUE
