---------------------------- MODULE PCLogBuffer ----------------------------
(***************************************************************************)
(* In-memory log window and live subscription (src/pclog/process_log_      *)
(* buffer.go).  Lines are identified by their sequence number 1, 2, 3 ...  *)
(*                                                                         *)
(* The operators (Window, Trim, LegalLen) are shared by                    *)
(*   - the design model below (TLC explores every interleaving of a writer *)
(*     with subscribe / unsubscribe calls for small constants), and        *)
(*   - PCLogBufferTrace, which replays operation histories recorded from   *)
(*     the real ProcessLogBuffer.                                          *)
(***************************************************************************)
EXTENDS Integers, Sequences, FiniteSets, TLC

Min(a, b) == IF a <= b THEN a ELSE b
MaxI(a, b) == IF a >= b THEN a ELSE b
Clamp(x, lo, hi) == MaxI(lo, Min(x, hi))
Suffix(s, n) == SubSeq(s, Len(s) - Min(n, Len(s)) + 1, Len(s))
IsSuffixOf(r, s) == Len(r) <= Len(s) /\ r = Suffix(s, Len(r))

(* The window a range request denotes: `off` lines from the end, then `lim` lines forward     *)
(* (lim < 1: up to the end), clamped to what exists.  Total: defined for all integers.        *)
Window(buf, off, lim) ==
  LET n == Len(buf)
      o == Clamp(off, 0, n)
      start == n - o                      \* number of lines skipped at the front
      stop == IF lim < 1 THEN n ELSE Min(start + lim, n)
  IN SubSeq(buf, start + 1, stop)

(* what the buffer may hold after `written` lines: the most recent ones, at least Size once   *)
(* that many were written, never more than Size + Slack                                        *)
LegalLen(len, written, size, slack) == len >= Min(written, size) /\ len <= size + slack /\ len <= written

(* the implementation's trimming rule: append; beyond Size + Slack drop the oldest Slack lines *)
Trim(buf, size, slack) == IF Len(buf) > size + slack THEN SubSeq(buf, slack + 1, Len(buf)) ELSE buf

(***************************************************************************)
(* Design model                                                            *)
(***************************************************************************)
CONSTANTS Size, Slack, MaxWrites, Observers, Tails

VARIABLES buf,        \* current buffer content
          written,    \* number of lines written so far
          subs,       \* subscribed observers
          inflight,   \* line being delivered (0: no write in progress); the buffer mutex is held
          todo,       \* observers the in-flight line still has to be delivered to
          got         \* observer -> sequence of lines it has received (tail, then live lines)
vars == <<buf, written, subs, inflight, todo, got>>

Init == /\ buf = <<>> /\ written = 0 /\ subs = {} /\ inflight = 0 /\ todo = {}
        /\ got = [o \in Observers |-> <<>>]

WriteBegin ==       \* Write(): lock, append, trim
  /\ inflight = 0 /\ written < MaxWrites
  /\ written' = written + 1
  /\ buf' = Trim(Append(buf, written + 1), Size, Slack)
  /\ inflight' = written + 1
  /\ todo' = subs
  /\ UNCHANGED <<subs, got>>

Deliver(o) ==       \* observer.WriteString under the mutex
  /\ inflight # 0 /\ o \in todo
  /\ got' = [got EXCEPT ![o] = Append(@, inflight)]
  /\ todo' = todo \ {o}
  /\ UNCHANGED <<buf, written, subs, inflight>>

WriteEnd ==
  /\ inflight # 0 /\ todo = {}
  /\ inflight' = 0
  /\ UNCHANGED <<buf, written, subs, todo, got>>

Subscribe(o, n) ==  \* GetLogsAndSubscribe: needs the mutex, so never during a write
  /\ inflight = 0 /\ o \notin subs /\ got[o] = <<>>
  /\ got' = [got EXCEPT ![o] = Window(buf, n, 0)]
  /\ subs' = subs \cup {o}
  /\ UNCHANGED <<buf, written, inflight, todo>>

Unsubscribe(o) ==
  /\ inflight = 0 /\ o \in subs
  /\ subs' = subs \ {o}
  /\ got' = [got EXCEPT ![o] = <<>>]       \* a later subscription starts afresh
  /\ UNCHANGED <<buf, written, inflight, todo>>

Next == \/ WriteBegin \/ WriteEnd
        \/ \E o \in Observers : Deliver(o) \/ Unsubscribe(o) \/ \E n \in Tails : Subscribe(o, n)
Spec == Init /\ [][Next]_vars

AllWritten == [k \in 1..written |-> k]

C18_Recent == /\ IsSuffixOf(buf, AllWritten)
              /\ LegalLen(Len(buf), written, Size, Slack)

\* what a follower has received is a contiguous run of lines ending at the last line delivered to it:
\* no gap, no duplicate, also across the hand-over from the tail to the live lines
Contiguous(s) == \A k \in 1..(Len(s) - 1) : s[k + 1] = s[k] + 1
C18_FollowerNoGapNoDup ==
  \A o \in Observers :
     /\ Contiguous(got[o])
     /\ (o \in subs /\ got[o] # <<>> /\ o \notin todo) => got[o][Len(got[o])] = written
     /\ (o \in subs /\ o \in todo /\ got[o] # <<>>) => got[o][Len(got[o])] = written - 1

\* every range request is answered with the window (total function: never fails)
C18_RangeTotal ==
  \A off \in -1..(Len(buf) + 1) : \A lim \in -1..(Len(buf) + 1) :
     LET r == Window(buf, off, lim) IN
       /\ IsSuffixOf(r, buf) \/ \E k \in 0..Len(buf) : r = SubSeq(buf, k + 1, k + Len(r))
       /\ Len(r) <= Len(buf)
       /\ (lim >= 1 => Len(r) <= lim)
       /\ (off >= Len(buf) /\ lim < 1) => r = buf
=============================================================================
