SPECIFICATION Spec
CONSTANTS
  Configs <- Gating3Configs
  Codes <- Codes01
  MaxLaunch = 1
  MaxInst = 3
  MaxApi = 0
  ApiOps <- NoOps
  SerializeApi = TRUE
  StartFailures = FALSE
INVARIANTS AllInvs AtRestOK
CHECK_DEADLOCK FALSE
