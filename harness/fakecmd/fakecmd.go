// Package fakecmd implements command.Commander with a scripted process: the
// scenario decides whether Start fails, what the command writes, when it exits
// on its own, which signals kill it, how long it takes to die and with which
// exit code. It is the ground truth for "which command is alive".
package fakecmd

import (
	"errors"
	"io"
	"sync"
	"sync/atomic"
	"syscall"
	"time"

	"verifharness/tracer"
)

// OutItem is one line written by the scripted command.
type OutItem struct {
	AtTick int    `json:"at"`     // ticks after start
	Stream string `json:"stream"` // "stdout" | "stderr"
	Text   string `json:"text"`
	NoNL   bool   `json:"nonl,omitempty"` // write without trailing newline
}

// Behaviour scripts one launch attempt.
type Behaviour struct {
	StartErr    bool      `json:"startErr,omitempty"`
	Out         []OutItem `json:"out,omitempty"`
	ExitMode    string    `json:"exitMode"`             // "auto" | "signal"
	AfterTicks  int       `json:"afterTicks,omitempty"` // auto: exits that many ticks after start
	Code        int       `json:"code"`                 // exit code of a spontaneous exit
	DiesOn      string    `json:"diesOn,omitempty"`     // "any" (default) | "kill" (only signal 9)
	StopLatency int       `json:"stopLatency,omitempty"`
	SigCode     int       `json:"sigCode,omitempty"` // exit code when killed by a signal
	BurstAtExit int       `json:"burstAtExit,omitempty"`
	LoseOnWait  bool      `json:"-"`
}

var (
	Tick       = 2 * time.Millisecond
	serial     atomic.Int64
	evSeq      atomic.Int64 // global order of launches / signals / exits (ground truth for "before")
	aliveCount atomic.Int64
	allMu      sync.Mutex
	all        []*Cmd
)

// Alive returns the number of scripted commands currently alive.
func Alive() int { return int(aliveCount.Load()) }

// NextSeq draws the next number of the global launch / signal / exit order (a marker for the harness).
func NextSeq() int64 { return evSeq.Add(1) }

// AliveProc reports whether a scripted command of process p is alive.
func AliveProc(p string) bool {
	allMu.Lock()
	defer allMu.Unlock()
	for _, c := range all {
		if c.Proc == p {
			c.mu.Lock()
			a := c.started && !c.dead
			c.mu.Unlock()
			if a {
				return true
			}
		}
	}
	return false
}

// Snapshot describes one command for the record-validated properties.
type Snapshot struct {
	Serial    int64    `json:"serial"`
	Proc      string   `json:"proc"`
	Alive     bool     `json:"alive"`
	Signalled bool     `json:"signalled"`
	LaunchSeq int64    `json:"launchSeq"`
	ExitSeq   int64    `json:"exitSeq"`
	SigSeq    int64    `json:"sigSeq"`
	Argv      []string `json:"argv"`
	Dir       string   `json:"dir"`
	Env       []string `json:"-"`
}

// All returns a snapshot of every command created since the last Reset.
func All() []Snapshot {
	allMu.Lock()
	cs := append([]*Cmd(nil), all...)
	allMu.Unlock()
	out := []Snapshot{}
	for _, c := range cs {
		c.mu.Lock()
		if c.started {
			argv := c.Argv
			if argv == nil {
				argv = []string{}
			}
			out = append(out, Snapshot{Serial: c.Serial, Proc: c.Proc, Alive: !c.dead, Signalled: c.sigSeen, LaunchSeq: c.LaunchSeq,
				ExitSeq: c.ExitSeq, SigSeq: c.SigSeq, Argv: argv, Dir: c.dir, Env: c.env})
		}
		c.mu.Unlock()
	}
	return out
}

// Reset forgets all commands (between scenarios) after force-killing survivors.
func Reset() {
	allMu.Lock()
	cs := all
	all = nil
	allMu.Unlock()
	for _, c := range cs {
		c.die(-9, true, true)
	}
	serial.Store(0)
}

// KillAll force-exits every alive command (clean-up of a stuck scenario).
func KillAll() {
	allMu.Lock()
	cs := append([]*Cmd(nil), all...)
	allMu.Unlock()
	for _, c := range cs {
		c.die(-9, true, true)
	}
}

type Cmd struct {
	Proc    string
	Inst    int64
	Serial  int64
	Attempt int
	B       Behaviour
	Argv    []string

	mu        sync.Mutex
	started   bool
	dead      bool
	reaped    bool // Wait() has returned: like a real pid, the command can no longer be signalled
	exitCode  int
	exited    chan struct{}
	env       []string
	dir       string
	outW      *io.PipeWriter
	outR      *io.PipeReader
	errW      *io.PipeWriter
	errR      *io.PipeReader
	firstSig  time.Time
	sigSeen   bool
	dying     bool
	Written   []OutItem // lines actually written (C11 ground truth)
	LaunchSeq int64
	ExitSeq   int64
	SigSeq    int64 // first signal
	writeMu   sync.Mutex
}

func New(proc string, inst int64, attempt int, argv []string, b Behaviour) *Cmd {
	c := &Cmd{Proc: proc, Inst: inst, Attempt: attempt, B: b, Argv: argv, exited: make(chan struct{})}
	c.Serial = serial.Add(1)
	allMu.Lock()
	all = append(all, c)
	allMu.Unlock()
	return c
}

func (c *Cmd) Env() []string { return c.env }
func (c *Cmd) Dir() string   { return c.dir }

func (c *Cmd) Start() error {
	c.mu.Lock()
	if c.B.StartErr {
		c.mu.Unlock()
		tracer.Emit("StartFail", c.Proc, c.Inst, "c", c.Serial, "attempt", c.Attempt)
		c.closePipes()
		return errors.New("scripted start failure")
	}
	c.started = true
	c.LaunchSeq = evSeq.Add(1)
	aliveCount.Add(1)
	tracer.Emit("Launch", c.Proc, c.Inst, "c", c.Serial, "attempt", c.Attempt, "dir", c.dir)
	c.mu.Unlock()
	go c.life()
	return nil
}

// life plays the output script and the spontaneous exit.
func (c *Cmd) life() {
	begin := time.Now()
	for _, it := range c.B.Out {
		at := begin.Add(time.Duration(it.AtTick) * Tick)
		if c.B.ExitMode == "auto" && it.AtTick > c.B.AfterTicks {
			break
		}
		if !c.sleepUntil(at) {
			return
		}
		c.write(it)
	}
	if c.B.ExitMode == "auto" {
		if !c.sleepUntil(begin.Add(time.Duration(c.B.AfterTicks) * Tick)) {
			return
		}
		c.die(c.B.Code, false, false)
	}
}

func (c *Cmd) sleepUntil(at time.Time) bool {
	d := time.Until(at)
	if d <= 0 {
		select {
		case <-c.exited:
			return false
		default:
			return true
		}
	}
	select {
	case <-c.exited:
		return false
	case <-time.After(d):
		return true
	}
}

func (c *Cmd) write(it OutItem) {
	c.writeMu.Lock()
	defer c.writeMu.Unlock()
	c.mu.Lock()
	if c.dead {
		c.mu.Unlock()
		return
	}
	w := c.outW
	if it.Stream == "stderr" {
		w = c.errW
	}
	c.mu.Unlock()
	if w == nil {
		return
	}
	s := it.Text
	if !it.NoNL {
		s += "\n"
	}
	c.Written = append(c.Written, it)
	_, _ = w.Write([]byte(s))
}

// die makes the command exit. forced: harness clean-up (no event).
func (c *Cmd) die(code int, bySignal bool, forced bool) {
	c.mu.Lock()
	if c.dead || !c.started {
		c.mu.Unlock()
		return
	}
	c.dead = true
	c.exitCode = code
	c.ExitSeq = evSeq.Add(1)
	c.mu.Unlock()
	// output written "immediately before exit"
	if !forced {
		for k := 0; k < c.B.BurstAtExit; k++ {
			c.writeBurst(k)
		}
	}
	c.mu.Lock()
	aliveCount.Add(-1)
	if !forced {
		tracer.Emit("Exit", c.Proc, c.Inst, "c", c.Serial, "code", code, "bySignal", bySignal)
	}
	c.mu.Unlock()
	c.closePipes()
	close(c.exited)
}

func (c *Cmd) writeBurst(k int) {
	c.writeMu.Lock()
	defer c.writeMu.Unlock()
	w := c.outW
	if w == nil {
		return
	}
	it := OutItem{Stream: "stdout", Text: "burst-" + itoa(k)}
	c.Written = append(c.Written, it)
	_, _ = w.Write([]byte(it.Text + "\n"))
}

func itoa(k int) string {
	if k == 0 {
		return "0"
	}
	s := ""
	for k > 0 {
		s = string(rune('0'+k%10)) + s
		k /= 10
	}
	return s
}

func (c *Cmd) closePipes() {
	if c.outW != nil {
		_ = c.outW.Close()
	}
	if c.errW != nil {
		_ = c.errW.Close()
	}
}

func (c *Cmd) Stop(sig int, parentOnly bool) error {
	if sig < 1 || sig > 31 {
		sig = 15
	}
	c.mu.Lock()
	since := int64(-1)
	if c.sigSeen {
		since = int64(time.Since(c.firstSig) / time.Microsecond)
	} else {
		c.sigSeen = true
		c.firstSig = time.Now()
		c.SigSeq = evSeq.Add(1)
	}
	aliveNow := c.started && !c.dead
	tracer.Emit("Signal", c.Proc, c.Inst, "c", c.Serial, "sig", sig, "parentOnly", parentOnly,
		"sinceStopUs", since, "alive", aliveNow)
	kills := aliveNow && (c.B.DiesOn != "kill" || sig == 9)
	if kills && c.dying {
		kills = false
	}
	if kills {
		c.dying = true
	}
	lat := c.B.StopLatency
	code := c.B.SigCode
	reaped := c.reaped
	c.mu.Unlock()
	if reaped {
		// what CmdWrapper.Stop returns once the process has been waited for (getpgid / kill: ESRCH)
		return syscall.ESRCH
	}
	if kills {
		if sig == 9 {
			lat = 0
			code = -1
		}
		if lat <= 0 {
			c.die(code, true, false)
		} else {
			go func() {
				select {
				case <-c.exited:
				case <-time.After(time.Duration(lat) * Tick):
					c.die(code, true, false)
				}
			}()
		}
	}
	return nil
}

func (c *Cmd) SetCmdArgs() {}

func (c *Cmd) Run() error {
	if err := c.Start(); err != nil {
		return err
	}
	return c.Wait()
}

func (c *Cmd) Wait() error {
	<-c.exited
	// like os/exec: once Wait has seen the exit the read ends are closed,
	// output not yet consumed is lost.
	if c.outR != nil {
		_ = c.outR.Close()
	}
	if c.errR != nil {
		_ = c.errR.Close()
	}
	c.mu.Lock()
	c.reaped = true
	c.mu.Unlock()
	return nil
}

func (c *Cmd) ExitCode() int {
	c.mu.Lock()
	defer c.mu.Unlock()
	return c.exitCode
}

func (c *Cmd) Pid() int { return 4000000 + int(c.Serial) }

func (c *Cmd) StdoutPipe() (io.ReadCloser, error) {
	c.outR, c.outW = io.Pipe()
	return c.outR, nil
}

func (c *Cmd) StderrPipe() (io.ReadCloser, error) {
	c.errR, c.errW = io.Pipe()
	return c.errR, nil
}

type nopWriteCloser struct{}

func (nopWriteCloser) Write(b []byte) (int, error) { return len(b), nil }
func (nopWriteCloser) Close() error                { return nil }

func (c *Cmd) StdinPipe() (io.WriteCloser, error) { return nopWriteCloser{}, nil }
func (c *Cmd) AttachIo()                          {}
func (c *Cmd) SetEnv(env []string)                { c.env = env }
func (c *Cmd) SetDir(dir string)                  { c.dir = dir }
func (c *Cmd) Output() ([]byte, error)            { return nil, nil }
