package records

import (
	"bufio"
	"bytes"
	"encoding/json"
	"flag"
	"fmt"
	"io"
	"math/rand"
	"net"
	"net/http"
	"net/http/httptest"
	"net/url"
	"os"
	"sort"
	"strconv"
	"strings"
	"sync"
	"time"

	"github.com/f1bonacc1/process-compose/src/api"
	"github.com/f1bonacc1/process-compose/src/app"
	"github.com/f1bonacc1/process-compose/src/client"
	"github.com/f1bonacc1/process-compose/src/pclog"
	"github.com/f1bonacc1/process-compose/src/types"
	"github.com/gin-gonic/gin"
)

// ------------------------------------------------------------------ canonical JSON (projection only)

var volatileKeys = map[string]bool{"age": true, "system_time": true, "mem": true, "cpu": true, "UpTime": true, "StartTime": true,
	"MemoryState": true, "OriginalConfig": true}

func scrub(v any) any {
	switch x := v.(type) {
	case map[string]any:
		out := map[string]any{}
		for k, val := range x {
			if volatileKeys[k] {
				continue
			}
			out[k] = scrub(val)
		}
		return out
	case []any:
		out := make([]any, len(x))
		for i := range x {
			out[i] = scrub(x[i])
		}
		// lists of process states come in map order: sort by name when the elements have one
		sort.SliceStable(out, func(a, b int) bool {
			ma, oka := out[a].(map[string]any)
			mb, okb := out[b].(map[string]any)
			if oka && okb {
				na, _ := ma["name"].(string)
				nb, _ := mb["name"].(string)
				return na < nb
			}
			return false
		})
		return out
	}
	return v
}

func canon(v any) string {
	b, err := json.Marshal(v)
	if err != nil {
		return "<unmarshalable>"
	}
	return canonBytes(b)
}

func canonBytes(b []byte) string {
	var x any
	if err := json.Unmarshal(b, &x); err != nil {
		return "<not json>"
	}
	out, _ := json.Marshal(scrub(x))
	return string(out)
}

// ------------------------------------------------------------------ recording decorator around the real runner

type dcall struct {
	M       string `json:"m"`
	Err     string `json:"err"`
	JSON    string `json:"json"`
	Partial bool   `json:"partial"`
}

type recProject struct {
	inner *app.ProjectRunner
	mu    sync.Mutex
	calls []dcall
}

func (r *recProject) add(m string, err error, val any, partial bool) {
	c := dcall{M: m, JSON: "null", Partial: partial}
	if err != nil {
		c.Err = err.Error()
		if c.Err == "" {
			c.Err = "<empty error>"
		}
	}
	if val != nil {
		c.JSON = canon(val)
	}
	r.mu.Lock()
	r.calls = append(r.calls, c)
	r.mu.Unlock()
}

func (r *recProject) take() []dcall {
	r.mu.Lock()
	defer r.mu.Unlock()
	out := r.calls
	r.calls = nil
	if out == nil {
		out = []dcall{}
	}
	return out
}

func (r *recProject) ShutDownProject() error {
	err := r.inner.ShutDownProject()
	r.add("ShutDownProject", err, nil, false)
	return err
}
func (r *recProject) IsRemote() bool    { return false }
func (r *recProject) ErrorForSecs() int { return 0 }
func (r *recProject) GetHostName() (string, error) {
	v, err := r.inner.GetHostName()
	r.add("GetHostName", err, map[string]string{"name": v}, false)
	return v, err
}
func (r *recProject) GetProjectState(checkMem bool) (*types.ProjectState, error) {
	v, err := r.inner.GetProjectState(checkMem)
	r.add("GetProjectState", err, v, false)
	return v, err
}
func (r *recProject) GetLogLength() int { return r.inner.GetLogLength() }
func (r *recProject) GetLogsAndSubscribe(name string, observer pclog.LogObserver) error {
	return r.inner.GetLogsAndSubscribe(name, observer)
}
func (r *recProject) UnSubscribeLogger(name string, observer pclog.LogObserver) error {
	return r.inner.UnSubscribeLogger(name, observer)
}
func (r *recProject) GetProcessLog(name string, offsetFromEnd, limit int) ([]string, error) {
	v, err := r.inner.GetProcessLog(name, offsetFromEnd, limit)
	var val any
	if err == nil {
		val = map[string]any{"logs": v}
	}
	r.add("GetProcessLog", err, val, false)
	return v, err
}
func (r *recProject) GetLexicographicProcessNames() ([]string, error) {
	return r.inner.GetLexicographicProcessNames()
}
func (r *recProject) GetProcessInfo(name string) (*types.ProcessConfig, error) {
	v, err := r.inner.GetProcessInfo(name)
	var val any
	if err == nil {
		val = v
	}
	r.add("GetProcessInfo", err, val, false)
	return v, err
}
func (r *recProject) GetProcessState(name string) (*types.ProcessState, error) {
	v, err := r.inner.GetProcessState(name)
	var val any
	if err == nil {
		val = v
	}
	r.add("GetProcessState", err, val, false)
	return v, err
}
func (r *recProject) GetProcessesState() (*types.ProcessesState, error) {
	v, err := r.inner.GetProcessesState()
	var val any
	if err == nil {
		val = v
	}
	r.add("GetProcessesState", err, val, false)
	return v, err
}
func (r *recProject) StopProcess(name string) error {
	err := r.inner.StopProcess(name)
	r.add("StopProcess", err, map[string]string{"name": name}, false)
	return err
}
func (r *recProject) StopProcesses(names []string) (map[string]string, error) {
	v, err := r.inner.StopProcesses(names)
	r.add("StopProcesses", err, v, err != nil && len(v) > 0 && anyOK(v))
	return v, err
}
func anyOK(m map[string]string) bool { return len(m) > 0 }
func (r *recProject) StartProcess(name string) error {
	err := r.inner.StartProcess(name)
	r.add("StartProcess", err, map[string]string{"name": name}, false)
	return err
}
func (r *recProject) RestartProcess(name string) error {
	err := r.inner.RestartProcess(name)
	r.add("RestartProcess", err, map[string]string{"name": name}, false)
	return err
}
func (r *recProject) ScaleProcess(name string, scale int) error {
	err := r.inner.ScaleProcess(name, scale)
	r.add("ScaleProcess", err, map[string]string{"name": name}, false)
	return err
}
func (r *recProject) GetProcessPorts(name string) (*types.ProcessPorts, error) {
	v, err := r.inner.GetProcessPorts(name)
	var val any
	if err == nil {
		val = v
	}
	r.add("GetProcessPorts", err, val, false)
	return v, err
}
func (r *recProject) SetProcessPassword(name string, password string) error {
	return r.inner.SetProcessPassword(name, password)
}
func (r *recProject) UpdateProject(project *types.Project) (map[string]string, error) {
	v, err := r.inner.UpdateProject(project)
	r.add("UpdateProject", err, v, err != nil && len(v) > 0)
	return v, err
}
func (r *recProject) UpdateProcess(updated *types.ProcessConfig) error {
	err := r.inner.UpdateProcess(updated)
	r.add("UpdateProcess", err, nil, false)
	return err
}
func (r *recProject) ReloadProject() (map[string]string, error) {
	v, err := r.inner.ReloadProject()
	r.add("ReloadProject", err, v, err != nil && len(v) > 0)
	return v, err
}

// ------------------------------------------------------------------ the harness

type apiEnv struct {
	lr   *liveRunner
	rp   *recProject
	srv  *httptest.Server
	cl   *client.PcClient
	http *http.Client
	rec  *recWriter
	hid  string
	step int
}

func (e *apiEnv) live() bool {
	resp, err := e.http.Get(e.srv.URL + "/live")
	if err != nil {
		return false
	}
	defer resp.Body.Close()
	return resp.StatusCode == 200
}

// doHTTP performs one raw request and writes the record of the three views.
func (e *apiEnv) doHTTP(route, method, path string, body []byte, reqKind string, expectM string) {
	e.rp.take()
	req, err := http.NewRequest(method, e.srv.URL+path, bytes.NewReader(body))
	status := -1
	bodyJSON, bodyErr := "<no response>", ""
	if err == nil {
		if body != nil {
			req.Header.Set("Content-Type", "application/json")
		}
		resp, rerr := e.http.Do(req)
		if rerr == nil {
			b, _ := io.ReadAll(resp.Body)
			resp.Body.Close()
			status = resp.StatusCode
			bodyJSON = canonBytes(b)
			var m map[string]any
			if json.Unmarshal(b, &m) == nil {
				if s, ok := m["error"].(string); ok {
					bodyErr = s
					if s == "" {
						bodyErr = "<empty error>"
					}
				}
			}
		}
	}
	direct := e.rp.take()
	e.step++
	e.rec.put(map[string]any{"kind": "api", "id": fmt.Sprintf("%s-%d", e.hid, e.step), "via": "http", "route": route, "method": method,
		"path": path, "reqKind": reqKind, "expectM": expectM, "status": status, "bodyJson": bodyJSON, "bodyErr": bodyErr,
		"direct": direct, "client": map[string]any{"err": "", "json": "null"}, "liveOk": e.live()})
}

func (e *apiEnv) doClient(route string, expectM string, call func() (any, error)) {
	e.rp.take()
	var val any
	var cerr error
	func() {
		defer func() {
			if r := recover(); r != nil {
				cerr = fmt.Errorf("client panic: %v", r)
			}
		}()
		val, cerr = call()
	}()
	direct := e.rp.take()
	cj := "null"
	if val != nil && cerr == nil {
		cj = canon(val)
	}
	ce := ""
	if cerr != nil {
		ce = cerr.Error()
		if ce == "" {
			ce = "<empty error>"
		}
	}
	e.step++
	e.rec.put(map[string]any{"kind": "api", "id": fmt.Sprintf("%s-%d", e.hid, e.step), "via": "client", "route": route, "method": "",
		"path": "", "reqKind": "valid", "expectM": expectM, "status": 0, "bodyJson": "null", "bodyErr": "",
		"direct": direct, "client": map[string]any{"err": ce, "json": cj}, "liveOk": e.live()})
}

var nameAlphabet = []string{"svc", "job", "off", "nosuch", "no%2Fsuch", "a%20b", strings.Repeat("n", 300), "caf%C3%A9", "svc-0"}
var numAlphabet = []string{"-1", "0", "1", "2", "3", "2147483648", "9223372036854775807", "9223372036854775802", "9223372036854775808", "x", "1.5", "%20", "1e3"}

func apiYAML(dir string) string {
	af := AFile{Procs: []AProc{
		{Name: "svc", Opts: []KV{{"command", "run svc"}}},
		{Name: "job", Opts: []KV{{"command", "run job"}}},
		{Name: "off", Opts: []KV{{"command", "run off"}}, Disabled: true},
	}}
	return writeFile(dir, "api.yaml", af.Render())
}

// ApiMain: pcharness api -seed S -tier T -out file
func ApiMain(args []string) {
	fs := flag.NewFlagSet("api", flag.ExitOnError)
	seed := fs.Int64("seed", 1, "seed")
	tier := fs.String("tier", "quick", "tier")
	out := fs.String("out", "api.ndjson", "output")
	_ = fs.Parse(args)
	f, _ := os.Create(*out)
	rec := &recWriter{w: bufio.NewWriterSize(f, 1<<20)}
	dir, _ := os.MkdirTemp("", "pcapi")
	defer os.RemoveAll(dir)
	gin.SetMode(gin.ReleaseMode)
	r := rand.New(rand.NewSource(*seed))
	hists := 12
	if *tier == "thorough" {
		hists = 200
	}
	nrec := 0
	for h := 0; h < hists; h++ {
		path := apiYAML(dir)
		project, err := load([]string{path})
		if err != nil {
			continue
		}
		lr := startLive(project, map[string]int{"job": 6})
		if lr == nil {
			continue
		}
		settle()
		rp := &recProject{inner: lr.runner}
		srv := httptest.NewServer(api.InitRoutes(false, api.NewPcApi(rp)))
		u, _ := url.Parse(srv.URL)
		host, portS, _ := net.SplitHostPort(u.Host)
		port, _ := strconv.Atoi(portS)
		env := &apiEnv{lr: lr, rp: rp, srv: srv, cl: client.NewTcpClient(host, port, 100), http: &http.Client{Timeout: 10 * time.Second},
			rec: rec, hid: fmt.Sprintf("api-%d-%d", *seed, h)}
		// the log stream (websocket route) through the bundled log client: a single-process stream, a two-process
		// stream (its handlers share one socket: the one that finishes first closes it under the other's feet),
		// then single-process streams again - the server must go on serving them faithfully
		wsStep := 0
		wsStream := func(names string, judged bool) {
			wsStep++
			lc := client.NewLogClient(u.Host, "")
			var mu sync.Mutex
			got := []string{}
			done, err := lc.ReadProcessLogs(names, 5, false, func(m api.LogMessage) {
				mu.Lock()
				got = append(got, m.Message)
				mu.Unlock()
			})
			ended := false
			if err == nil {
				select {
				case <-done:
					ended = true
				case <-time.After(3 * time.Second):
				}
			}
			direct := []string{}
			if judged {
				if d, derr := lr.runner.GetProcessLog(names, 5, 0); derr == nil {
					direct = d
				}
			}
			mu.Lock()
			rec.put(map[string]any{"kind": "apiws", "id": fmt.Sprintf("%s-ws%d", env.hid, wsStep), "names": names, "judged": judged,
				"dialErr": err != nil, "ended": ended, "got": append([]string{}, got...), "direct": direct, "liveOk": env.live()})
			mu.Unlock()
		}
		settle()
		time.Sleep(15 * time.Millisecond) // the scripted commands have printed their lines
		wsStream("svc", true)
		wsStream("svc,job", false)
		wsStream("svc,job", false)
		wsStream("svc", true)
		wsStream("job", true)
		// write something into the logs
		steps := 45
		for s := 0; s < steps; s++ {
			name := nameAlphabet[r.Intn(len(nameAlphabet))]
			if r.Intn(2) == 0 {
				name = []string{"svc", "job", "off"}[r.Intn(3)]
			}
			num := numAlphabet[r.Intn(len(numAlphabet))]
			valid := func(n string) string {
				if strings.ContainsAny(n, "%.") || len(n) > 100 {
					return "badparam"
				}
				return "valid"
			}
			numKind := func(n string) string {
				if _, err := strconv.Atoi(n); err != nil {
					return "badparam"
				}
				return "valid"
			}
			switch r.Intn(22) {
			case 0:
				env.doHTTP("GetProcesses", "GET", "/processes", nil, "valid", "GetProcessesState")
			case 1:
				env.doHTTP("GetProcess", "GET", "/process/"+name, nil, valid(name), "GetProcessState")
			case 2:
				env.doHTTP("GetProcessInfo", "GET", "/process/info/"+name, nil, valid(name), "GetProcessInfo")
			case 3:
				num2 := numAlphabet[r.Intn(len(numAlphabet))]
				k := "valid"
				if numKind(num) != "valid" || numKind(num2) != "valid" || valid(name) != "valid" {
					k = "badparam"
				}
				env.doHTTP("GetProcessLogs", "GET", "/process/logs/"+name+"/"+num+"/"+num2, nil, k, "GetProcessLog")
			case 4:
				env.doHTTP("StopProcess", "PATCH", "/process/stop/"+name, nil, valid(name), "StopProcess")
			case 5:
				bodies := [][]byte{[]byte(`["svc","job"]`), []byte(`["nosuch"]`), []byte(`["svc","nosuch"]`), []byte(`["svc"`), []byte(`{"a":1}`), []byte(``), []byte(`[1,2]`), []byte(`null`)}
				b := bodies[r.Intn(len(bodies))]
				k := "valid"
				var probe []string
				if json.Unmarshal(b, &probe) != nil || len(b) == 0 {
					k = "badbody"
				}
				env.doHTTP("StopProcesses", "PATCH", "/processes/stop", b, k, "StopProcesses")
			case 6:
				env.doHTTP("StartProcess", "POST", "/process/start/"+name, nil, valid(name), "StartProcess")
			case 7:
				if name == "svc" || name == "job" {
					env.doHTTP("RestartProcess", "POST", "/process/restart/"+name, nil, "valid", "RestartProcess")
				} else {
					env.doHTTP("RestartProcess", "POST", "/process/restart/"+name, nil, valid(name), "RestartProcess")
				}
			case 8:
				// (a syntactically valid but huge replica count is honoured by the runner and exhausts the machine: not requested here)
				snum := []string{"-1", "0", "1", "2", "3", "9223372036854775808", "x", "1.5", "%20"}[r.Intn(9)]
				k := numKind(snum)
				if valid(name) != "valid" {
					k = "badparam"
				}
				env.doHTTP("ScaleProcess", "PATCH", "/process/scale/"+name+"/"+snum, nil, k, "ScaleProcess")
			case 9:
				env.doHTTP("GetProcessPorts", "GET", "/process/ports/"+name, nil, valid(name), "GetProcessPorts")
			case 10:
				env.doHTTP("GetProjectState", "GET", "/project/state?withMemory="+pickS(r, "true", "false", "x", ""), nil, "valid", "GetProjectState")
			case 11:
				env.doHTTP("GetHostName", "GET", "/hostname", nil, "valid", "GetHostName")
			case 12:
				bodies := [][]byte{[]byte(`{"Name":"svc"`), []byte(`[]`), []byte(`"x"`), []byte(``), []byte(`{"Processes": 5}`)}
				env.doHTTP("UpdateProject", "POST", "/project", bodies[r.Intn(len(bodies))], "badbody", "UpdateProject")
			case 13:
				bodies := [][]byte{[]byte(`{"Name":`), []byte(`[1]`), []byte(``), []byte(`{"Replicas":"many"}`)}
				env.doHTTP("UpdateProcess", "POST", "/process", bodies[r.Intn(len(bodies))], "badbody", "UpdateProcess")
			case 14:
				env.doHTTP("ReloadProject", "POST", "/project/configuration", nil, "valid", "ReloadProject")
			case 15: // client views
				n2 := []string{"svc", "job", "off", "nosuch"}[r.Intn(4)]
				env.doClient("GetProcess", "GetProcessState", func() (any, error) { v, e := env.cl.GetProcessState(n2); return v, e })
			case 16:
				n2 := []string{"svc", "job", "off", "nosuch"}[r.Intn(4)]
				env.doClient("GetProcessInfo", "GetProcessInfo", func() (any, error) { v, e := env.cl.GetProcessInfo(n2); return v, e })
			case 17:
				env.doClient("GetProcesses", "GetProcessesState", func() (any, error) { v, e := env.cl.GetProcessesState(); return v, e })
			case 18:
				n2 := []string{"svc", "job", "off", "nosuch"}[r.Intn(4)]
				op := r.Intn(4)
				env.doClient([]string{"StopProcess", "StartProcess", "RestartProcess", "ScaleProcess"}[op],
					[]string{"StopProcess", "StartProcess", "RestartProcess", "ScaleProcess"}[op], func() (any, error) {
						var e error
						switch op {
						case 0:
							e = env.cl.StopProcess(n2)
						case 1:
							e = env.cl.StartProcess(n2)
						case 2:
							e = env.cl.RestartProcess(n2)
						default:
							e = env.cl.ScaleProcess(n2, []int{-1, 0, 1, 2}[r.Intn(4)])
						}
						return map[string]string{"name": n2}, e
					})
			case 19:
				names := [][]string{{"svc", "job"}, {"nosuch"}, {"svc", "nosuch"}, {"job", "off"}}[r.Intn(4)]
				env.doClient("StopProcesses", "StopProcesses", func() (any, error) { v, e := env.cl.StopProcesses(names); return v, e })
			case 20:
				n2 := []string{"svc", "job", "nosuch"}[r.Intn(3)]
				env.doClient("GetProcessPorts", "GetProcessPorts", func() (any, error) { v, e := env.cl.GetProcessPorts(n2); return v, e })
			default:
				// a valid project update through the client: the current project with one description changed
				cur, lerr := load([]string{path})
				if lerr == nil {
					pc := cur.Processes["svc"]
					pc.Description = fmt.Sprintf("d%d", s)
					cur.Processes["svc"] = pc
					env.doClient("UpdateProject", "UpdateProject", func() (any, error) { v, e := env.cl.UpdateProject(cur); return v, e })
				}
			}
			if s%9 == 8 {
				settle()
			}
		}
		env.doHTTP("ShutDownProject", "POST", "/project/stop", nil, "valid", "ShutDownProject")
		time.Sleep(20 * time.Millisecond)
		srv.Close()
		lr.stop()
		nrec += env.step
	}
	rec.w.Flush()
	f.Close()
	fmt.Printf("{\"records\":%d,\"histories\":%d}\n", rec.n, hists)
}
