package records

import (
	"fmt"
	"os"
	"path/filepath"
	"sort"
	"strings"
)

// yq renders a string as a YAML double-quoted scalar.
func yq(s string) string {
	r := strings.NewReplacer("\\", "\\\\", "\"", "\\\"", "\n", "\\n", "\t", "\\t")
	return "\"" + r.Replace(s) + "\""
}

// KV is an ordered key/value pair (JSON: [k, v]).
type KV [2]string

// AProc is the abstract description of one process stanza in one file.
type AProc struct {
	Name       string            `json:"name"`
	Opts       []KV              `json:"opts"` // single-valued options (yaml key, value as text)
	Env        []KV              `json:"env"`
	Deps       []KV              `json:"deps"` // dependency name, condition
	Vars       []KV              `json:"vars"`
	Replicas   int               `json:"replicas"`
	Disabled   bool              `json:"disabled"`
	Foreground bool              `json:"foreground"`
	Probe      map[string]string `json:"-"` // readiness probe fields (exec.command / http_get.*)
	ProbeKind  string            `json:"-"`
	ProbeLive  bool              `json:"-"` // the probe is the liveness probe (default: readiness)
	Extra      []string          `json:"-"` // raw YAML lines (already indented) for options without a slot above
}

// AFile is the abstract description of one configuration file.
type AFile struct {
	Procs    []AProc  `json:"procs"`
	Env      []KV     `json:"env"` // global environment
	Vars     []KV     `json:"vars"`
	EnvCmds  []KV     `json:"envCmds"`
	Extends  string   `json:"extends"`
	NoExpand bool     `json:"noExpand"`
	Strict   bool     `json:"strict"`
	Raw      []string `json:"-"`
}

func isBoolOpt(k string) bool {
	switch k {
	case "is_daemon", "disabled", "is_foreground", "is_tty", "is_elevated", "disable_ansi_colors":
		return true
	}
	return false
}

func isIntOpt(k string) bool {
	return k == "replicas" || k == "launch_timeout_seconds"
}

// Render writes the file as YAML text.
func (f *AFile) Render() string {
	var b strings.Builder
	b.WriteString("version: \"0.5\"\n")
	if f.Extends != "" {
		fmt.Fprintf(&b, "extends: %s\n", yq(f.Extends))
	}
	if f.NoExpand {
		b.WriteString("disable_env_expansion: true\n")
	}
	if f.Strict {
		b.WriteString("is_strict: true\n")
	}
	if len(f.Vars) > 0 {
		b.WriteString("vars:\n")
		for _, kv := range f.Vars {
			fmt.Fprintf(&b, "  %s: %s\n", kv[0], yq(kv[1]))
		}
	}
	if len(f.EnvCmds) > 0 {
		b.WriteString("env_cmds:\n")
		for _, kv := range f.EnvCmds {
			fmt.Fprintf(&b, "  %s: %s\n", kv[0], yq(kv[1]))
		}
	}
	if len(f.Env) > 0 {
		b.WriteString("environment:\n")
		for _, kv := range f.Env {
			fmt.Fprintf(&b, "  - %s\n", yq(kv[0]+"="+kv[1]))
		}
	}
	for _, l := range f.Raw {
		b.WriteString(l + "\n")
	}
	b.WriteString("processes:\n")
	for _, p := range f.Procs {
		if len(p.Opts) == 0 && p.Replicas == 0 && !p.Disabled && !p.Foreground && len(p.Vars) == 0 && len(p.Env) == 0 && len(p.Deps) == 0 && p.ProbeKind == "" && len(p.Extra) == 0 {
			fmt.Fprintf(&b, "  %s: {}\n", p.Name)
			continue
		}
		fmt.Fprintf(&b, "  %s:\n", p.Name)
		wrote := false
		for _, kv := range p.Opts {
			wrote = true
			switch {
			case isBoolOpt(kv[0]), isIntOpt(kv[0]):
				fmt.Fprintf(&b, "    %s: %s\n", kv[0], kv[1])
			default:
				fmt.Fprintf(&b, "    %s: %s\n", kv[0], yq(kv[1]))
			}
		}
		if p.Replicas != 0 {
			wrote = true
			fmt.Fprintf(&b, "    replicas: %d\n", p.Replicas)
		}
		if p.Disabled {
			wrote = true
			b.WriteString("    disabled: true\n")
		}
		if p.Foreground {
			wrote = true
			b.WriteString("    is_foreground: true\n")
		}
		if len(p.Vars) > 0 {
			wrote = true
			b.WriteString("    vars:\n")
			for _, kv := range p.Vars {
				fmt.Fprintf(&b, "      %s: %s\n", kv[0], yq(kv[1]))
			}
		}
		if len(p.Env) > 0 {
			wrote = true
			b.WriteString("    environment:\n")
			for _, kv := range p.Env {
				fmt.Fprintf(&b, "      - %s\n", yq(kv[0]+"="+kv[1]))
			}
		}
		if len(p.Deps) > 0 {
			wrote = true
			b.WriteString("    depends_on:\n")
			for _, kv := range p.Deps {
				fmt.Fprintf(&b, "      %s:\n        condition: %s\n", kv[0], kv[1])
			}
		}
		if p.ProbeKind != "" {
			wrote = true
			if p.ProbeLive {
				b.WriteString("    liveness_probe:\n")
			} else {
				b.WriteString("    readiness_probe:\n")
			}
			if p.ProbeKind == "exec" {
				fmt.Fprintf(&b, "      exec:\n        command: %s\n", yq(p.Probe["command"]))
			} else {
				b.WriteString("      http_get:\n")
				keys := []string{}
				for k := range p.Probe {
					keys = append(keys, k)
				}
				sort.Strings(keys)
				for _, k := range keys {
					fmt.Fprintf(&b, "        %s: %s\n", k, yq(p.Probe[k]))
				}
			}
		}
		for _, l := range p.Extra {
			wrote = true
			b.WriteString(l + "\n")
		}
		if !wrote {
			b.WriteString("    command: \"true\"\n")
		}
	}
	return b.String()
}

func writeFile(dir, name, text string) string {
	p := filepath.Join(dir, name)
	_ = os.WriteFile(p, []byte(text), 0o644)
	return p
}
