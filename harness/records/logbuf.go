// Package records produces (input, output) records of the sequential / pure components of
// process-compose for record validation by TLC (DESIGN.md section 4.5). The Go side contains no
// expected values: it only projects what the real functions did.
package records

import (
	"bufio"
	"bytes"
	"encoding/json"
	"flag"
	"fmt"
	"math"
	"math/rand"
	"os"
	"strconv"
	"strings"
	"sync"
	"time"

	"github.com/f1bonacc1/process-compose/src/pclog"
)

type recWriter struct {
	mu sync.Mutex
	w  *bufio.Writer
	n  int
}

func (r *recWriter) put(m map[string]any) {
	b, _ := json.Marshal(m)
	// TLC's Json module has no null: nil slices are empty sequences
	b = bytes.ReplaceAll(b, []byte(":null"), []byte(":[]"))
	r.mu.Lock()
	r.w.Write(b)
	r.w.WriteByte('\n')
	r.n++
	r.mu.Unlock()
}

func lineNo(s string) int {
	n, err := strconv.Atoi(strings.TrimPrefix(s, "L"))
	if err != nil {
		return -1
	}
	return n
}

func lineNos(ss []string) []int {
	out := make([]int, 0, len(ss))
	for _, s := range ss {
		out = append(out, lineNo(s))
	}
	return out
}

// observer logs what it is given from inside the buffer's critical section.
type observer struct {
	id      string
	tail    int
	rec     *recWriter
	blockAt int           // block on the blockAt-th delivery (0: never)
	release chan struct{} // closed to let a stalled observer continue
	seen    int
}

func (o *observer) WriteString(line string) (int, error) {
	o.seen++
	if o.blockAt > 0 && o.seen == o.blockAt {
		<-o.release
	}
	o.rec.put(map[string]any{"op": "recv", "o": o.id, "x": lineNo(line)})
	return len(line), nil
}
func (o *observer) SetLines(lines []string) {
	o.rec.put(map[string]any{"op": "sub", "o": o.id, "tail": o.tail, "got": lineNos(lines)})
}
func (o *observer) GetTailLength() int  { return o.tail }
func (o *observer) GetUniqueID() string { return o.id }

func safeRange(b *pclog.ProcessLogBuffer, off, lim int) (res []string, panicked bool) {
	defer func() {
		if r := recover(); r != nil {
			panicked = true
			res = nil
		}
	}()
	return b.GetLogRange(off, lim), false
}

// clamp32 keeps a number inside what TLC's integers hold; beyond +-2^30 every value means the same window
func clamp32(x int) int {
	if x > 1<<30 {
		return 1 << 30
	}
	if x < -(1 << 30) {
		return -(1 << 30)
	}
	return x
}

func rangeRec(rec *recWriter, b *pclog.ProcessLogBuffer, off, lim int) []string {
	n := b.GetLogLength()
	res, p := safeRange(b, off, lim)
	rec.put(map[string]any{"op": "range", "len": n, "off": clamp32(off), "lim": clamp32(lim), "res": lineNos(res), "panic": p})
	return res
}

// LogbufMain: pcharness logbuf -seed S -tier quick|thorough -out file
func LogbufMain(args []string) {
	fs := flag.NewFlagSet("logbuf", flag.ExitOnError)
	seed := fs.Int64("seed", 1, "seed")
	tier := fs.String("tier", "quick", "tier")
	out := fs.String("out", "logbuf.ndjson", "output")
	_ = fs.Parse(args)
	f, err := os.Create(*out)
	if err != nil {
		fmt.Fprintln(os.Stderr, err)
		os.Exit(2)
	}
	rec := &recWriter{w: bufio.NewWriterSize(f, 1<<20)}
	r := rand.New(rand.NewSource(*seed))
	hist := 0
	newBuf := func(size int, kind string) *pclog.ProcessLogBuffer {
		hist++
		rec.put(map[string]any{"op": "new", "id": fmt.Sprintf("%s-%d-%d", kind, *seed, hist), "size": size, "slack": 100})
		return pclog.NewLogBuffer(size)
	}
	write := func(b *pclog.ProcessLogBuffer, x int) {
		rec.put(map[string]any{"op": "wbegin", "x": x})
		b.Write("L" + strconv.Itoa(x))
		rec.put(map[string]any{"op": "wend", "x": x})
	}
	// (A) exhaustive (offset, limit) grids on small logs, sampled grids around the trim boundary
	for _, size := range []int{0, 1, 3, 5} {
		for n := 0; n <= 6; n++ {
			b := newBuf(size, "grid")
			for x := 1; x <= n; x++ {
				write(b, x)
			}
			for off := -2; off <= n+3; off++ {
				for lim := -2; lim <= n+3; lim++ {
					rangeRec(rec, b, off, lim)
				}
			}
		}
		for _, n := range []int{size + 99, size + 100, size + 101, size + 102, size + 201, size + 202} {
			b := newBuf(size, "trim")
			for x := 1; x <= n; x++ {
				write(b, x)
			}
			L := b.GetLogLength()
			pts := []int{-1, 0, 1, 2, size, size + 1, L - 1, L, L + 1, 1 << 30, -(1 << 30), math.MaxInt64, math.MaxInt64 - 3, math.MinInt64}
			type held struct {
				win  []string
				copy []string
			}
			var windows []held
			for _, off := range pts {
				for _, lim := range pts {
					w := rangeRec(rec, b, off, lim)
					if len(w) > 0 {
						windows = append(windows, held{w, append([]string{}, w...)})
					}
				}
			}
			// a window handed to a caller is a value: whatever is written (and trimmed) afterwards must not change it
			for x := n + 1; x <= n+2*(size+100)+5; x++ {
				write(b, x)
			}
			changed := 0
			for _, h := range windows {
				for k := range h.win {
					if h.win[k] != h.copy[k] {
						changed++
						break
					}
				}
			}
			rec.put(map[string]any{"op": "winstable", "windows": len(windows), "changed": changed})
		}
	}
	// (B) a writer concurrent with subscribe / unsubscribe
	rounds := 60
	if *tier == "thorough" {
		rounds = 1500
	}
	for h := 0; h < rounds; h++ {
		size := []int{0, 1, 2, 5, 30}[r.Intn(5)]
		b := newBuf(size, "follow")
		pre := r.Intn(8)
		if r.Intn(6) == 0 {
			pre = size + 95 + r.Intn(12)
		}
		for x := 1; x <= pre; x++ {
			write(b, x)
		}
		total := pre + 5 + r.Intn(25)
		// dense histories: a busy writer and followers that come and go all the time (the hand-over of the tail to
		// a new follower has to be gap-free at every instant of a write)
		dense := h%6 == 5
		if dense {
			total = pre + 250
		}
		var wg sync.WaitGroup
		nobs := 1 + r.Intn(3)
		seeds := make([]int64, nobs)
		for k := range seeds {
			seeds[k] = r.Int63()
		}
		wg.Add(1)
		go func() {
			defer wg.Done()
			for x := pre + 1; x <= total; x++ {
				write(b, x)
				if x%3 == 0 && !dense {
					time.Sleep(time.Duration(20+x%7*10) * time.Microsecond)
				}
			}
		}()
		for k := 0; k < nobs; k++ {
			wg.Add(1)
			go func(k int) {
				defer wg.Done()
				rr := rand.New(rand.NewSource(seeds[k]))
				cycles := 1 + rr.Intn(3)
				if dense {
					cycles = 25
				}
				for j := 0; j < cycles; j++ {
					if !dense {
						time.Sleep(time.Duration(rr.Intn(300)) * time.Microsecond)
					}
					o := &observer{id: fmt.Sprintf("o%d_%d", k, j), tail: []int{0, 1, 2, 3, size, 100000}[rr.Intn(6)], rec: rec}
					if dense {
						o.tail = rr.Intn(4)
					}
					b.GetLogsAndSubscribe(o)
					if dense {
						time.Sleep(time.Duration(rr.Intn(60)) * time.Microsecond)
					} else {
						time.Sleep(time.Duration(rr.Intn(400)) * time.Microsecond)
					}
					if rr.Intn(4) != 0 {
						rec.put(map[string]any{"op": "unsubbegin", "o": o.id})
						b.UnSubscribe(o)
						rec.put(map[string]any{"op": "unsub", "o": o.id})
					}
				}
			}(k)
		}
		wg.Wait()
		rangeRec(rec, b, 1<<30, 0)
		if r.Intn(3) == 0 {
			b.Close()
			rec.put(map[string]any{"op": "close"})
			write(b, total+1)
		}
	}
	// (C) a follower that stops reading must not hold up the writer or the other followers
	for h := 0; h < 3; h++ {
		b := newBuf(5, "stall")
		good := &observer{id: "good", tail: 2, rec: rec}
		slow := &observer{id: "slow", tail: 0, rec: rec, blockAt: 2 + h, release: make(chan struct{})}
		b.GetLogsAndSubscribe(good)
		b.GetLogsAndSubscribe(slow)
		done := make(chan struct{})
		go func() {
			for x := 1; x <= 8; x++ {
				write(b, x)
			}
			close(done)
		}()
		select {
		case <-done:
		case <-time.After(700 * time.Millisecond):
			rec.put(map[string]any{"op": "stuck", "what": "writer blocked behind a follower that stopped reading", "blockedAt": slow.blockAt})
		}
		close(slow.release)
		<-done
	}
	rec.put(map[string]any{"op": "end"})
	rec.w.Flush()
	f.Close()
	fmt.Printf("{\"records\":%d,\"histories\":%d}\n", rec.n, hist)
}
