package records

import (
	"bufio"
	"bytes"
	"encoding/json"
	"flag"
	"fmt"
	"math/rand"
	"os"
	"os/exec"
	"regexp"
	"runtime"
	"sort"
	"strings"
	"sync"
	"sync/atomic"
	"time"

	"github.com/f1bonacc1/process-compose/src/app"
	"github.com/f1bonacc1/process-compose/src/command"
	"github.com/f1bonacc1/process-compose/src/types"

	"verifharness/fakecmd"
)

var concOps = []string{"state", "states", "projstate", "logrange", "logsub", "start", "stop", "restart", "scale", "update", "info", "shutdown"}

type nullObserver struct{ id string }

func (o *nullObserver) WriteString(line string) (int, error) {
	runtime.Gosched() // an observer does some work (the TUI redraws, the websocket writer queues)
	return len(line), nil
}
func (o *nullObserver) SetLines(lines []string) {}
func (o *nullObserver) GetTailLength() int      { return 5 }
func (o *nullObserver) GetUniqueID() string     { return o.id }

func concProject() *types.Project {
	mk := func(name string, policy string) types.ProcessConfig {
		return types.ProcessConfig{Name: name, ReplicaName: name, Executable: "fake", Args: []string{name}, Command: "fake " + name,
			Namespace: "default", Replicas: 1, LaunchTimeout: 1, RestartPolicy: types.RestartPolicyConfig{Restart: policy},
			OriginalConfig: fmt.Sprintf(`{"Name":%q,"Command":"fake %s","Namespace":"default","Replicas":1}`, name, name)}
	}
	return &types.Project{Version: "0.5", LogLength: 50, ShellConfig: command.DefaultShellConfig(),
		Processes: types.Processes{"svc": mk("svc", "no"), "loop": mk("loop", "always"), "job": mk("job", "no")}}
}

// runBatch runs one batch of concurrent operations in THIS process and prints one JSON record on stdout.
func runBatch(id string, ops []string, seed int64) {
	project := concProject()
	app.VerifReset()
	fakecmd.Reset()
	app.VerifTraceFn, app.VerifGateFn = nil, nil
	var dbgMu sync.Mutex
	var dbg []string
	if os.Getenv("VERIF_CONC_STACKS") != "" { // debugging aid: the events of the run, printed when a call blocks
		t0 := time.Now()
		note := func(s string) {
			dbgMu.Lock()
			dbg = append(dbg, fmt.Sprintf("%7.3fms %s", float64(time.Since(t0).Microseconds())/1000, s))
			dbgMu.Unlock()
		}
		app.VerifTraceFn = func(ev string, proc string, inst int64, kv []any) {
			note(fmt.Sprintf("%s %s#%d %v", ev, proc, inst, kv))
		}
		app.VerifGateFn = func(proc string, inst int64, point string) { note(fmt.Sprintf("gate %s %s#%d", point, proc, inst)) }
	}
	app.VerifBackoffFn = func(proc string, inst int64, d time.Duration) (time.Duration, bool) { return d / 200, true }
	app.VerifCommanderFn = func(info app.VerifLaunchInfo) command.Commander {
		b := fakecmd.Behaviour{ExitMode: "signal", SigCode: -1}
		switch info.Conf.Name {
		case "loop": // exits, restarts, logs
			b = fakecmd.Behaviour{ExitMode: "auto", AfterTicks: 2, Code: 1, Out: []fakecmd.OutItem{{AtTick: 0, Stream: "stdout", Text: "loop says hi"}, {AtTick: 1, Stream: "stderr", Text: "loop again"}}}
		case "job":
			b = fakecmd.Behaviour{ExitMode: "auto", AfterTicks: 3, Code: 0, Out: []fakecmd.OutItem{{AtTick: 1, Stream: "stdout", Text: "job line"}}}
		default:
			// a chatty service: output is being delivered to the log buffer (and its observers) all the time
			for t := 0; t < 130; t++ {
				for k := 0; k < 12; k++ {
					st := "stdout"
					if k%4 == 3 {
						st = "stderr"
					}
					b.Out = append(b.Out, fakecmd.OutItem{AtTick: t, Stream: st, Text: fmt.Sprintf("svc line %d.%d", t, k)})
				}
			}
		}
		return fakecmd.New(info.Proc, info.Inst, info.Attempt, nil, b)
	}
	runner, err := app.NewProjectRunner((&app.ProjectOpts{}).WithProject(project).WithIsTuiOn(true))
	if err != nil {
		return
	}
	runDone := make(chan struct{})
	var panics []map[string]any
	var pmu sync.Mutex
	notePanic := func(op string, r any) {
		pmu.Lock()
		panics = append(panics, map[string]any{"op": op, "msg": fmt.Sprint(r), "site": panicSiteRec()})
		pmu.Unlock()
	}
	go func() {
		defer func() {
			if r := recover(); r != nil {
				notePanic("run", r)
			}
			close(runDone)
		}()
		_ = runner.Run()
	}()
	// the API is usable once Run() has begun (it creates the registries): wait for the first registered instance
	for t0 := time.Now(); time.Since(t0) < 2*time.Second; time.Sleep(200 * time.Microsecond) {
		if running, done := runner.VerifRegistries(); len(running)+len(done) > 0 {
			break
		}
	}
	names := []string{"svc", "loop", "job", "nosuch"}
	var iters sync.Map
	var inflight sync.Map // op -> start time of the call in flight
	deadline := time.Now().Add(250 * time.Millisecond)
	var wg sync.WaitGroup
	var obsSeq atomic.Int64
	doOp := func(op string, r *rand.Rand) {
		defer func() {
			if rec := recover(); rec != nil {
				notePanic(op, rec)
			}
		}()
		name := names[r.Intn(len(names))]
		switch op {
		case "state":
			_, _ = runner.GetProcessState(name)
		case "states":
			_, _ = runner.GetProcessesState()
		case "projstate":
			_, _ = runner.GetProjectState(r.Intn(2) == 0)
		case "logrange":
			_, _ = runner.GetProcessLog(name, r.Intn(8), r.Intn(4))
		case "logsub":
			// followers come and go (TUI selection changes, log stream connects / disconnects), mostly on the chatty process
			if r.Intn(4) != 0 {
				name = "svc"
			}
			for k := 0; k < 8; k++ {
				o := &nullObserver{id: fmt.Sprintf("o%d", obsSeq.Add(1))}
				if runner.GetLogsAndSubscribe(name, o) == nil {
					if k%4 == 0 {
						time.Sleep(time.Duration(r.Intn(300)) * time.Microsecond)
					}
					_ = runner.UnSubscribeLogger(name, o)
				}
			}
		case "start":
			_ = runner.StartProcess(name)
		case "stop":
			_ = runner.StopProcess(name)
		case "restart":
			_ = runner.RestartProcess(name)
		case "scale":
			// back and forth across the name-width boundary (1 <-> 2..3 replicas renames the survivors), addressing the
			// process by whichever of its names exists at the moment
			base := names[r.Intn(3)]
			n := 1 + r.Intn(3)
			if runner.ScaleProcess(base, n) != nil {
				_ = runner.ScaleProcess(base+"-0", n)
			}
		case "info":
			_, _ = runner.GetProcessInfo(name)
		case "shutdown":
			// a project shutdown in the middle of everything (other requests may start processes again afterwards)
			_ = runner.ShutDownProject()
			time.Sleep(time.Duration(2+r.Intn(8)) * time.Millisecond)
			_ = runner.StartProcess(names[r.Intn(3)])
		case "update":
			p2 := concProject()
			pc := p2.Processes["job"]
			pc.Description = fmt.Sprintf("d%d", r.Intn(5))
			p2.Processes["job"] = pc
			if r.Intn(3) == 0 {
				delete(p2.Processes, "loop")
			}
			_, _ = runner.UpdateProject(p2)
		}
	}
	for k, op := range ops {
		wg.Add(1)
		go func(k int, op string) {
			defer wg.Done()
			r := rand.New(rand.NewSource(seed + int64(k)*7919))
			key := fmt.Sprintf("%s#%d", op, k)
			n := 0
			for time.Now().Before(deadline) {
				inflight.Store(key, time.Now())
				doOp(op, r)
				inflight.Delete(key)
				n++
				time.Sleep(time.Duration(r.Intn(400)) * time.Microsecond)
			}
			iters.Store(key, n)
		}(k, op)
	}
	opsDone := make(chan struct{})
	go func() { wg.Wait(); close(opsDone) }()
	blocked := []string{}
	select {
	case <-opsDone:
	case <-time.After(10 * time.Second):
		inflight.Range(func(k, v any) bool {
			blocked = append(blocked, strings.Split(k.(string), "#")[0])
			return true
		})
	}
	shutBlocked := false
	if len(blocked) == 0 {
		sd := make(chan struct{})
		go func() {
			defer func() {
				if r := recover(); r != nil {
					notePanic("shutdown", r)
				}
				close(sd)
			}()
			_ = runner.ShutDownProject()
		}()
		select {
		case <-sd:
			select {
			case <-runDone:
			case <-time.After(5 * time.Second):
				shutBlocked = true
			}
		case <-time.After(10 * time.Second):
			shutBlocked = true
		}
	}
	blockedSites := []string{}
	if len(blocked) > 0 || shutBlocked {
		// where the goroutines of the supervisor are parked: the first process-compose frame of every goroutine
		buf := make([]byte, 1<<20)
		buf = buf[:runtime.Stack(buf, true)]
		if os.Getenv("VERIF_CONC_STACKS") != "" {
			os.Stderr.Write(buf)
			dbgMu.Lock()
			os.Stderr.WriteString("\n\nEVENTS\n" + strings.Join(dbg, "\n") + "\n")
			dbgMu.Unlock()
		}
		seen := map[string]bool{}
		for _, g := range strings.Split(string(buf), "\n\n") {
			if m := frameRe.FindStringSubmatch(g); m != nil && !seen[m[1]] {
				seen[m[1]] = true
				blockedSites = append(blockedSites, m[1])
			}
		}
		sort.Strings(blockedSites)
	}
	its := [][]any{}
	iters.Range(func(k, v any) bool { its = append(its, []any{k, v}); return true })
	sort.Slice(its, func(a, b int) bool { return its[a][0].(string) < its[b][0].(string) })
	sort.Strings(blocked)
	pmu.Lock()
	if panics == nil {
		panics = []map[string]any{}
	}
	rec := map[string]any{"kind": "conc", "id": id, "ops": ops, "iterations": its, "panics": panics, "blocked": blocked,
		"runBlocked": shutBlocked, "fatal": "", "fatalSite": "", "blockedSites": blockedSites}
	pmu.Unlock()
	b, _ := json.Marshal(rec)
	b = bytes.ReplaceAll(b, []byte(":null"), []byte(":[]"))
	fmt.Println(string(b))
	fakecmd.KillAll()
}

func panicSiteRec() string {
	pcs := make([]uintptr, 50)
	n := runtime.Callers(3, pcs)
	frames := runtime.CallersFrames(pcs[:n])
	for {
		fr, more := frames.Next()
		if strings.Contains(fr.Function, "process-compose/src/") {
			return fr.Function[strings.LastIndex(fr.Function, "/")+1:]
		}
		if !more {
			break
		}
	}
	return "unknown"
}

var fatalRe = regexp.MustCompile(`(?m)^(fatal error: .*|panic: .*)$`)
var frameRe = regexp.MustCompile(`(?m)^github\.com/f1bonacc1/process-compose/src/([\w/]+\.[\w\(\)\*\.]+)\(`)

// ConcMain: pcharness conc -seed S -tier T -out file   (each batch runs in a child process: a fatal error kills only the batch)
func ConcMain(args []string) {
	fs := flag.NewFlagSet("conc", flag.ExitOnError)
	seed := fs.Int64("seed", 1, "seed")
	tier := fs.String("tier", "quick", "tier")
	out := fs.String("out", "conc.ndjson", "output")
	batch := fs.String("batch", "", "internal: run this batch (comma separated ops) in this process")
	bid := fs.String("bid", "", "internal: batch id")
	_ = fs.Parse(args)
	if *batch != "" {
		runBatch(*bid, strings.Split(*batch, ","), *seed)
		return
	}
	f, _ := os.Create(*out)
	w := bufio.NewWriter(f)
	r := rand.New(rand.NewSource(*seed))
	batches := [][]string{}
	for i, a := range concOps { // every pair (also an operation with itself)
		for _, b := range concOps[i:] {
			batches = append(batches, []string{a, b})
		}
	}
	triples := 25
	if *tier == "thorough" {
		triples = 300
	}
	for k := 0; k < triples; k++ {
		batches = append(batches, []string{concOps[r.Intn(len(concOps))], concOps[r.Intn(len(concOps))], concOps[r.Intn(len(concOps))]})
	}
	type job struct {
		k   int
		ops []string
	}
	jobs := make(chan job)
	var mu sync.Mutex
	var wg sync.WaitGroup
	nrec := 0
	for wk := 0; wk < 8; wk++ {
		wg.Add(1)
		go func() {
			defer wg.Done()
			for j := range jobs {
				id := fmt.Sprintf("conc-%d-%d", *seed, j.k)
				cmd := exec.Command(os.Args[0], "conc", "-seed", fmt.Sprint(*seed+int64(j.k)), "-batch", strings.Join(j.ops, ","), "-bid", id)
				var so, se bytes.Buffer
				cmd.Stdout, cmd.Stderr = &so, &se
				done := make(chan error, 1)
				_ = cmd.Start()
				go func() { done <- cmd.Wait() }()
				var line string
				select {
				case <-done:
				case <-time.After(60 * time.Second):
					_ = cmd.Process.Kill()
				}
				for _, l := range strings.Split(so.String(), "\n") {
					if strings.HasPrefix(l, `{"`) {
						line = l
					}
				}
				if line == "" {
					// the child died: a fatal runtime error (e.g. concurrent map access) or an unrecovered panic
					msg, site := "child died without a record", ""
					if m := fatalRe.FindString(se.String()); m != "" {
						msg = m
					}
					if m := frameRe.FindStringSubmatch(se.String()); m != nil {
						site = m[1]
					}
					rec := map[string]any{"kind": "conc", "id": id, "ops": j.ops, "iterations": []any{}, "panics": []any{}, "blocked": []string{},
						"runBlocked": false, "fatal": msg, "fatalSite": site, "blockedSites": []string{}}
					b, _ := json.Marshal(rec)
					line = string(b)
				}
				mu.Lock()
				w.WriteString(line + "\n")
				nrec++
				mu.Unlock()
			}
		}()
	}
	for k, ops := range batches {
		jobs <- job{k, ops}
	}
	close(jobs)
	wg.Wait()
	w.Flush()
	f.Close()
	fmt.Printf("{\"records\":%d,\"histories\":%d}\n", nrec, len(batches))
}
