package records

import (
	"bufio"
	"encoding/json"
	"flag"
	"fmt"
	"io"
	"math/rand"
	"os"
	"path/filepath"
	"regexp"
	"strings"
	"time"

	"github.com/f1bonacc1/process-compose/src/app"
	"github.com/f1bonacc1/process-compose/src/command"
	"github.com/f1bonacc1/process-compose/src/types"
	"github.com/rs/zerolog"
	zlog "github.com/rs/zerolog/log"
)

type outItem struct {
	S   string `json:"s"`  // "o" | "e"
	ID  string `json:"id"` // unique per line
	Len int    `json:"len"`
	NL  bool   `json:"nl"`
}

var lineRe = regexp.MustCompile(`^(a\d+([oe])\d+)(\|0*)?$`)

func parseLines(lines []string) (out [][]any, junk int) {
	out = [][]any{}
	for _, l := range lines {
		m := lineRe.FindStringSubmatch(l)
		if m == nil {
			junk++
			continue
		}
		out = append(out, []any{m[1], len(l), m[2]})
	}
	return
}

// OutputMain: pcharness output -seed S -tier T -out file : real commands through the real output pipeline
func OutputMain(args []string) {
	fs := flag.NewFlagSet("output", flag.ExitOnError)
	seed := fs.Int64("seed", 1, "seed")
	tier := fs.String("tier", "quick", "tier")
	out := fs.String("out", "output.ndjson", "output")
	_ = fs.Parse(args)
	f, _ := os.Create(*out)
	rec := &recWriter{w: bufio.NewWriterSize(f, 1<<20)}
	dir, _ := os.MkdirTemp("", "pcout")
	defer os.RemoveAll(dir)
	r := rand.New(rand.NewSource(*seed))
	rounds := 90
	if *tier == "thorough" {
		rounds = 1500
	}
	// the per-process log files are written through zerolog as well: keep its events enabled,
	// only silence the supervisor's own global logger
	zerolog.SetGlobalLevel(zerolog.InfoLevel)
	zlog.Logger = zerolog.New(io.Discard)
	app.VerifCommanderFn = nil
	app.VerifTraceFn, app.VerifGateFn = nil, nil
	app.VerifBackoffFn = func(proc string, inst int64, d time.Duration) (time.Duration, bool) { return d / 100, true }
	n := 0
	for k := 0; k < rounds; k++ {
		attempts := []int{1, 1, 1, 2, 3}[r.Intn(5)]
		shape := r.Intn(8)
		counter := filepath.Join(dir, fmt.Sprintf("cnt%d", k))
		var sb strings.Builder
		fmt.Fprintf(&sb, "n=$(cat %s 2>/dev/null || echo 0); n=$((n+1)); echo $n > %s; ", counter, counter)
		perAttempt := []outItem{} // with attempt placeholder 0
		add := func(s string, idx int, pad int, nl bool) {
			id := fmt.Sprintf("a%%d%s%d", s, idx)
			perAttempt = append(perAttempt, outItem{S: s, ID: id, Len: pad, NL: nl})
			redir := ""
			if s == "e" {
				redir = " >&2"
			}
			nlS := `\n`
			if !nl {
				nlS = ""
			}
			if pad > 0 {
				fmt.Fprintf(&sb, "printf 'a%%s%s%d|%%0*d%s' \"$n\" %d 0%s; ", s, idx, nlS, pad, redir)
			} else {
				fmt.Fprintf(&sb, "printf 'a%%s%s%d%s' \"$n\"%s; ", s, idx, nlS, redir)
			}
		}
		burst := 0
		burstStream := "o"
		switch shape {
		case 0: // nothing
		case 1:
			add("o", 1, 0, true)
		case 2:
			add("o", 1, 0, true)
			add("e", 1, 0, true)
		case 3: // alternating
			for i := 1; i <= 5; i++ {
				add("o", i, 0, true)
				add("e", i, 0, true)
			}
		case 4: // very long line
			add("o", 1, 65537, true)
			add("e", 1, 70000, true)
			add("o", 2, 0, true)
		case 5: // burst right before exit
			burst = []int{200, 2000, 20000}[r.Intn(3)]
			burstStream = pickS(r, "o", "e")
		default:
			no, ne := r.Intn(6), r.Intn(6)
			for i := 1; i <= no; i++ {
				add("o", i, []int{0, 0, 10, 300}[r.Intn(4)], true)
			}
			for i := 1; i <= ne; i++ {
				add("e", i, []int{0, 0, 10}[r.Intn(3)], true)
			}
		}
		if burst > 0 {
			redir := ""
			if burstStream == "e" {
				redir = " >&2"
			}
			// seq writes the whole burst in a few large chunks: the command exits with output still in the pipe
			fmt.Fprintf(&sb, "seq -f \"a${n}%s%%.0f\" 1 %d%s; ", burstStream, burst, redir)
			for i := 1; i <= burst; i++ {
				perAttempt = append(perAttempt, outItem{S: burstStream, ID: fmt.Sprintf("a%%d%s%d", burstStream, i), Len: 0, NL: true})
			}
		}
		lastNoNL := false
		if shape != 5 && r.Intn(3) == 0 { // a final line without a trailing newline
			s := pickS(r, "o", "e")
			add(s, 900, 0, false)
			lastNoNL = true
		}
		code := 0
		if attempts > 1 {
			code = 1
		}
		fmt.Fprintf(&sb, "exit %d", code)
		script := []outItem{}
		maxLen := 0
		for a := 1; a <= attempts; a++ {
			for _, it := range perAttempt {
				id := fmt.Sprintf(it.ID, a)
				l := len(id)
				if it.Len > 0 {
					l = len(id) + 1 + it.Len
				}
				if l > maxLen {
					maxLen = l
				}
				script = append(script, outItem{S: it.S, ID: id, Len: l, NL: it.NL})
			}
		}
		logLength := []int{1000, 1000, 50, 5000, 30000}[r.Intn(5)]
		if burst >= 20000 {
			logLength = []int{1000, 30000}[r.Intn(2)]
		}
		logger := pickS(r, "none", "proc", "proc_flush", "project", "proc_nometa")
		pc := types.ProcessConfig{Name: "p", ReplicaName: "p", Executable: "bash", Args: []string{"-c", sb.String()}, Command: sb.String(),
			Namespace: "default", Replicas: 1, LaunchTimeout: 5}
		if attempts > 1 {
			pc.RestartPolicy = types.RestartPolicyConfig{Restart: "on_failure", MaxRestarts: attempts - 1}
		}
		project := &types.Project{Version: "0.5", LogLength: logLength, ShellConfig: command.DefaultShellConfig(),
			Processes: types.Processes{"p": pc}}
		logPath := ""
		switch logger {
		case "proc", "proc_flush", "proc_nometa":
			logPath = filepath.Join(dir, fmt.Sprintf("p%d.log", k))
			pc.LogLocation = logPath
			if logger == "proc_flush" {
				pc.LoggerConfig = &types.LoggerConfig{FlushEachLine: true}
			}
			if logger == "proc_nometa" {
				pc.LoggerConfig = &types.LoggerConfig{NoMetadata: true}
			}
			project.Processes["p"] = pc
		case "project":
			logPath = filepath.Join(dir, fmt.Sprintf("all%d.log", k))
			project.LogLocation = logPath
		}
		runner, err := app.NewProjectRunner((&app.ProjectOpts{}).WithProject(project).WithIsTuiOn(true))
		if err != nil {
			continue
		}
		done := make(chan struct{})
		go func() { _ = runner.Run(); close(done) }()
		stuck := false
		select {
		case <-done:
		case <-time.After(20 * time.Second):
			stuck = true
			go func() { _ = runner.ShutDownProject() }()
			select {
			case <-done:
			case <-time.After(3 * time.Second):
			}
		}
		lines, _ := runner.GetProcessLog("p", 1<<30, 0)
		buf, junk := parseLines(lines)
		fileLines := [][]any{}
		if logPath != "" {
			if b, err := os.ReadFile(logPath); err == nil {
				msgs := []string{}
				for _, l := range strings.Split(string(b), "\n") {
					if l == "" {
						continue
					}
					var m map[string]any
					if json.Unmarshal([]byte(l), &m) == nil {
						if s, ok := m["message"].(string); ok {
							msgs = append(msgs, s)
						}
					}
				}
				fileLines, _ = parseLines(msgs)
			}
			_ = os.Remove(logPath)
		}
		_ = os.Remove(counter)
		rec.put(map[string]any{"kind": "output", "id": fmt.Sprintf("output-%d-%d", *seed, k), "script": script, "attempts": attempts,
			"logLength": logLength, "logger": logger, "hasFile": logPath != "", "buffer": buf, "file": fileLines, "junk": junk,
			"lastNoNL": lastNoNL, "stuck": stuck, "maxLen": maxLen})
		n++
	}
	rec.w.Flush()
	f.Close()
	fmt.Printf("{\"records\":%d,\"histories\":%d}\n", rec.n, n)
}
