package records

import (
	"bufio"
	"encoding/json"
	"flag"
	"fmt"
	"os"

	"github.com/f1bonacc1/process-compose/src/pclog"
)

// Model -> code replay (DESIGN.md 4.6): behaviours that TLC generated from the design model
// PCLogBuffer are stepped through the real ProcessLogBuffer.  After every step of the model that is
// visible from outside the buffer's critical section the real buffer content and what every
// follower has received are written next to the model's state; the comparison is done by the
// caller (tools/logbuf_replay.py), the Go side holds no expectation.

type replayStep struct {
	Beh  int    `json:"beh"`
	Step int    `json:"step"`
	Act  string `json:"act"`
	O    string `json:"o"`
	N    int    `json:"n"`
	Size int    `json:"size"`
}

type replayObserver struct {
	id   string
	tail int
	got  []int
}

func (o *replayObserver) WriteString(line string) (int, error) {
	o.got = append(o.got, lineNo(line))
	return len(line), nil
}
func (o *replayObserver) SetLines(lines []string) { o.got = append([]int{}, lineNos(lines)...) }
func (o *replayObserver) GetTailLength() int      { return o.tail }
func (o *replayObserver) GetUniqueID() string     { return o.id }

// LogbufReplayMain: pcharness logbufreplay -in steps.ndjson -out observed.ndjson
func LogbufReplayMain(args []string) {
	fs := flag.NewFlagSet("logbufreplay", flag.ExitOnError)
	in := fs.String("in", "", "steps (ndjson) derived from TLC behaviours")
	out := fs.String("out", "", "observed states (ndjson)")
	_ = fs.Parse(args)
	f, err := os.Open(*in)
	if err != nil {
		fmt.Fprintln(os.Stderr, err)
		os.Exit(2)
	}
	defer f.Close()
	of, err := os.Create(*out)
	if err != nil {
		fmt.Fprintln(os.Stderr, err)
		os.Exit(2)
	}
	w := bufio.NewWriterSize(of, 1<<20)
	sc := bufio.NewScanner(f)
	sc.Buffer(make([]byte, 1<<20), 1<<24)
	var buf *pclog.ProcessLogBuffer
	obs := map[string]*replayObserver{}
	written, steps, behs := 0, 0, 0
	for sc.Scan() {
		var s replayStep
		if err := json.Unmarshal(sc.Bytes(), &s); err != nil {
			fmt.Fprintln(os.Stderr, "bad step:", err)
			os.Exit(2)
		}
		panicked := ""
		func() {
			defer func() {
				if r := recover(); r != nil {
					panicked = fmt.Sprint(r)
				}
			}()
			switch s.Act {
			case "Init":
				buf = pclog.NewLogBuffer(s.Size)
				obs = map[string]*replayObserver{}
				written = 0
				behs++
			case "WriteEnd": // the whole Write(): its inner steps are invisible outside the mutex
				written++
				buf.Write(fmt.Sprintf("L%d", written))
			case "Subscribe":
				o := &replayObserver{id: s.O, tail: s.N}
				obs[s.O] = o
				buf.GetLogsAndSubscribe(o)
			case "Unsubscribe":
				if o := obs[s.O]; o != nil {
					buf.UnSubscribe(o)
					o.got = nil
				}
			}
		}()
		steps++
		got := map[string][]int{}
		for id, o := range obs {
			if o.got == nil {
				got[id] = []int{}
			} else {
				got[id] = o.got
			}
		}
		var content []int
		if panicked == "" {
			res, p := safeRange(buf, 1<<30, 0)
			if p {
				panicked = "GetLogRange panicked"
			}
			content = lineNos(res)
		}
		b, _ := json.Marshal(map[string]any{"beh": s.Beh, "step": s.Step, "act": s.Act, "buf": content, "len": buf.GetLogLength(),
			"written": written, "got": got, "panic": panicked})
		w.Write(b)
		w.WriteByte('\n')
	}
	w.Flush()
	of.Close()
	fmt.Printf("{\"behaviours\":%d,\"steps\":%d}\n", behs, steps)
}
