package records

import (
	"bufio"
	"flag"
	"fmt"
	"math/rand"
	"os"
	"path/filepath"
	"sort"
	"strconv"
	"strings"
	"sync"
	"time"

	"github.com/f1bonacc1/process-compose/src/app"
	"github.com/f1bonacc1/process-compose/src/command"
	"github.com/f1bonacc1/process-compose/src/health"
	"github.com/f1bonacc1/process-compose/src/loader"
	"github.com/f1bonacc1/process-compose/src/types"

	"verifharness/fakecmd"
)

func pickS(r *rand.Rand, xs ...string) string { return xs[r.Intn(len(xs))] }

func splitEnv(list []string) []KV {
	out := []KV{}
	for _, s := range list {
		k, v, _ := strings.Cut(s, "=")
		out = append(out, KV{k, v})
	}
	return out
}

func load(files []string) (*types.Project, error) {
	return loader.Load(&loader.LoaderOptions{FileNames: files, IsInternalLoader: true})
}

// ------------------------------------------------------------------ C15 merge

var trackedOpts = []string{"command", "description", "log_location", "working_dir", "ready_log_line", "is_daemon"}
var envVals = []string{"", "1", "a=b", "a b", "'q'", "\"dq\"", "x=y=z", " lead", "trail ", "=", "a==", "v"}
var condVals = []string{"process_completed", "process_started", "process_completed_successfully"}

func optValue(r *rand.Rand, o string, tag string, dir string) string {
	switch o {
	case "is_daemon":
		return "true"
	case "working_dir":
		return pickS(r, "/tmp", "/", dir, "sub", "")
	case "command":
		return "echo " + tag
	default:
		return o + "-" + tag
	}
}

func projOpts(p types.ProcessConfig) []KV {
	return []KV{{"command", p.Command}, {"description", p.Description}, {"log_location", p.LogLocation},
		{"working_dir", p.WorkingDir}, {"ready_log_line", p.ReadyLogLine}, {"is_daemon", map[bool]string{true: "true", false: ""}[p.IsDaemon]}}
}

func depPairs(d types.DependsOnConfig) []KV {
	out := []KV{}
	for k, v := range d {
		out = append(out, KV{k, v.Condition})
	}
	sort.Slice(out, func(a, b int) bool { return out[a][0] < out[b][0] })
	return out
}

func genMergeFile(r *rand.Rand, names []string, tag string, dir string, optPct, envPct int) AFile {
	f := AFile{}
	for _, n := range names {
		p := AProc{Name: n}
		for _, o := range trackedOpts {
			if r.Intn(100) < optPct {
				v := optValue(r, o, tag+"-"+n, dir)
				if v == "" && o != "working_dir" {
					continue
				}
				if o == "working_dir" && v == "" {
					continue // an empty value is "not set"
				}
				p.Opts = append(p.Opts, KV{o, v})
			}
		}
		if r.Intn(100) < envPct {
			for _, k := range []string{"K1", "K2", "K3", "K4"} {
				if r.Intn(2) == 0 {
					p.Env = append(p.Env, KV{k, envVals[r.Intn(len(envVals))]})
				}
			}
		}
		if r.Intn(100) < 35 {
			for _, k := range names {
				if k < n && r.Intn(2) == 0 {
					p.Deps = append(p.Deps, KV{k, condVals[r.Intn(len(condVals))]})
				}
			}
		}
		f.Procs = append(f.Procs, p)
	}
	if r.Intn(100) < envPct {
		for _, k := range []string{"G1", "G2", "G3"} {
			if r.Intn(2) == 0 {
				f.Env = append(f.Env, KV{k, envVals[r.Intn(len(envVals))]})
			}
		}
	}
	return f
}

func mergeRecord(rec *recWriter, id string, mode string, files []AFile, paths []string, baseDir string) {
	m := map[string]any{"kind": "merge", "id": id, "mode": mode, "files": files, "tracked": trackedOpts,
		"baseDir": baseDir, "relvals": []string{"sub"}, "loadErr": false,
		"result": map[string]any{"procs": []any{}, "env": []KV{}}}
	project, err := load(paths)
	if err != nil {
		m["loadErr"] = true
		m["err"] = err.Error()
		rec.put(m)
		return
	}
	procs := []map[string]any{}
	names := []string{}
	for n := range project.Processes {
		names = append(names, n)
	}
	sort.Strings(names)
	for _, n := range names {
		p := project.Processes[n]
		procs = append(procs, map[string]any{"name": p.Name, "opts": projOpts(p), "env": splitEnv(p.Environment), "deps": depPairs(p.DependsOn)})
	}
	m["result"] = map[string]any{"procs": procs, "env": splitEnv(project.Environment)}
	rec.put(m)
}

// MergeMain: pcharness merge -seed S -tier T -out file
func MergeMain(args []string) {
	fs := flag.NewFlagSet("merge", flag.ExitOnError)
	seed := fs.Int64("seed", 1, "seed")
	tier := fs.String("tier", "quick", "tier")
	out := fs.String("out", "merge.ndjson", "output")
	_ = fs.Parse(args)
	f, _ := os.Create(*out)
	rec := &recWriter{w: bufio.NewWriterSize(f, 1<<20)}
	dir, _ := os.MkdirTemp("", "pcmerge")
	defer os.RemoveAll(dir)
	r := rand.New(rand.NewSource(*seed))
	n := 0
	emit := func(id string, files []AFile) {
		// (a) explicit file list
		paths := []string{}
		for k := range files {
			paths = append(paths, writeFile(dir, fmt.Sprintf("f%d.yaml", k), files[k].Render()))
		}
		mergeRecord(rec, id+"-list", "list", files, paths, dir)
		// (b) the same files as an extends chain: the last file extends the one before it, ...
		if len(files) >= 2 {
			chain := make([]AFile, len(files))
			copy(chain, files)
			// the base files live in another directory than the file that is loaded: empty / relative working
			// directories of the base's processes resolve against the base file's directory
			based := filepath.Join(dir, "based")
			_ = os.MkdirAll(based, 0o755)
			for k := 1; k < len(chain); k++ {
				chain[k].Extends = fmt.Sprintf("x%d.yaml", k-1)
			}
			chain[len(chain)-1].Extends = fmt.Sprintf("based/x%d.yaml", len(chain)-2)
			var last string
			for k := range chain {
				d := based
				if k == len(chain)-1 {
					d = dir
				}
				last = writeFile(d, fmt.Sprintf("x%d.yaml", k), chain[k].Render())
			}
			mergeRecord(rec, id+"-ext", "extends", files, []string{last}, based)
		}
		n++
	}
	names := []string{"pa", "pb", "pc"}
	// every tracked option alone, and every pair of options, overridden
	for i, o1 := range trackedOpts {
		for j := i; j < len(trackedOpts); j++ {
			o2 := trackedOpts[j]
			base := AFile{Procs: []AProc{{Name: "pa", Opts: []KV{{"command", "echo base"}}}}}
			over := AFile{Procs: []AProc{{Name: "pa"}}}
			for _, o := range []string{o1, o2} {
				bv, ov := optValue(r, o, "b", "/tmp"), optValue(r, o, "o", "/tmp")
				if o == "working_dir" {
					bv, ov = "/tmp", "/"
				}
				if o != "command" {
					base.Procs[0].Opts = append(base.Procs[0].Opts, KV{o, bv})
				}
				over.Procs[0].Opts = append(over.Procs[0].Opts, KV{o, ov})
				if o1 == o2 {
					break
				}
			}
			emit(fmt.Sprintf("opt-%s-%s", o1, o2), []AFile{base, over})
		}
	}
	// every environment value, untouched by / overridden in the later file
	for vi, v := range envVals {
		base := AFile{Procs: []AProc{{Name: "pa", Opts: []KV{{"command", "echo b"}}, Env: []KV{{"K1", v}, {"K2", "keep"}}}}, Env: []KV{{"G1", v}}}
		over1 := AFile{Procs: []AProc{{Name: "pa", Opts: []KV{{"description", "d"}}}}}
		over2 := AFile{Procs: []AProc{{Name: "pa", Env: []KV{{"K2", "new"}, {"K3", v}}}}, Env: []KV{{"G2", "x"}}}
		emit(fmt.Sprintf("envval-%d-a", vi), []AFile{base, over1})
		emit(fmt.Sprintf("envval-%d-b", vi), []AFile{base, over2})
	}
	rounds := 150
	if *tier == "thorough" {
		rounds = 3000
	}
	for k := 0; k < rounds; k++ {
		nf := 2 + r.Intn(2)
		files := []AFile{}
		for j := 0; j < nf; j++ {
			sub := []string{}
			for _, nm := range names {
				if r.Intn(3) != 0 {
					sub = append(sub, nm)
				}
			}
			if len(sub) == 0 {
				sub = []string{"pa"}
			}
			fl := genMergeFile(r, sub, fmt.Sprintf("f%d", j), dir, 45, 60)
			files = append(files, fl)
		}
		// the first file must give every process a command
		for i := range files[0].Procs {
			if !hasKey(files[0].Procs[i].Opts, "command") {
				files[0].Procs[i].Opts = append(files[0].Procs[i].Opts, KV{"command", "echo c"})
			}
		}
		emit(fmt.Sprintf("rnd-%d", k), files)
	}
	rec.w.Flush()
	f.Close()
	fmt.Printf("{\"records\":%d,\"histories\":%d}\n", rec.n, n)
}

func hasKey(kvs []KV, k string) bool {
	for _, kv := range kvs {
		if kv[0] == k {
			return true
		}
	}
	return false
}

// ------------------------------------------------------------------ C16 load

type tok [2]string

func renderTpl(ts []tok) string {
	var b strings.Builder
	for _, t := range ts {
		if t[0] == "lit" {
			b.WriteString(t[1])
		} else {
			b.WriteString("{{." + t[1] + "}}")
		}
	}
	return b.String()
}

func genTokens(r *rand.Rand, field string, vars []string) []tok {
	ts := []tok{{"lit", field + "-"}}
	n := 1 + r.Intn(3)
	for k := 0; k < n; k++ {
		if r.Intn(3) == 0 {
			ts = append(ts, tok{"lit", pickS(r, "x", "_", "a.b", "7")})
		} else {
			ts = append(ts, tok{"var", vars[r.Intn(len(vars))]})
		}
		ts = append(ts, tok{"lit", "-"})
	}
	return ts
}

var loadFields = []string{"command", "working_dir", "log_location", "description", "probe.exec.command", "probe.http.host", "probe.http.path", "probe.http.port"}

type loadProc struct {
	Name     string  `json:"name"`
	Replicas int     `json:"replicas"`
	NsSet    bool    `json:"nsSet"`
	Vars     []KV    `json:"vars"`
	Fields   [][]any `json:"fields"`
}

func projectLoaded(project *types.Project) []map[string]any {
	names := []string{}
	for n := range project.Processes {
		names = append(names, n)
	}
	sort.Strings(names)
	out := []map[string]any{}
	for _, n := range names {
		p := project.Processes[n]
		fields := []KV{{"command", p.Command}, {"working_dir", p.WorkingDir}, {"log_location", p.LogLocation}, {"description", p.Description}}
		probe := p.ReadinessProbe
		if probe == nil {
			probe = p.LivenessProbe // the generator configures one probe per process, of either kind
		}
		if probe != nil {
			if probe.Exec != nil {
				fields = append(fields, KV{"probe.exec.command", probe.Exec.Command})
			}
			if probe.HttpGet != nil {
				fields = append(fields, KV{"probe.http.host", probe.HttpGet.Host}, KV{"probe.http.path", probe.HttpGet.Path},
					KV{"probe.http.port", probe.HttpGet.Port})
			}
		}
		out = append(out, map[string]any{"rname": n, "name": p.Name, "num": p.ReplicaNum, "replicas": p.Replicas, "ns": p.Namespace,
			"lt": p.LaunchTimeout, "fields": fields})
	}
	return out
}

// aliasing: mutate replica A's configuration in place and see whether a sibling changes
func findAliasing(project *types.Project) []string {
	found := map[string]bool{}
	byBase := map[string][]string{}
	for n, p := range project.Processes {
		byBase[p.Name] = append(byBase[p.Name], n)
	}
	for _, reps := range byBase {
		if len(reps) < 2 {
			continue
		}
		sort.Strings(reps)
		a, b := project.Processes[reps[0]], project.Processes[reps[1]]
		if a.ReadinessProbe != nil && b.ReadinessProbe != nil {
			if a.ReadinessProbe == b.ReadinessProbe {
				found["readiness_probe"] = true
			} else {
				if a.ReadinessProbe.Exec != nil && a.ReadinessProbe.Exec == b.ReadinessProbe.Exec {
					found["readiness_probe.exec"] = true
				}
				if a.ReadinessProbe.HttpGet != nil && a.ReadinessProbe.HttpGet == b.ReadinessProbe.HttpGet {
					found["readiness_probe.http_get"] = true
				}
			}
		}
		if a.LivenessProbe != nil && b.LivenessProbe != nil {
			if a.LivenessProbe == b.LivenessProbe {
				found["liveness_probe"] = true
			} else {
				if a.LivenessProbe.Exec != nil && a.LivenessProbe.Exec == b.LivenessProbe.Exec {
					found["liveness_probe.exec"] = true
				}
				if a.LivenessProbe.HttpGet != nil && a.LivenessProbe.HttpGet == b.LivenessProbe.HttpGet {
					found["liveness_probe.http_get"] = true
				}
			}
		}
		if a.Vars != nil && b.Vars != nil {
			before := fmt.Sprint(b.Vars["__probe__"])
			a.Vars["__probe__"] = "touched"
			if fmt.Sprint(b.Vars["__probe__"]) != before {
				found["vars"] = true
			}
			delete(a.Vars, "__probe__")
		}
		if len(a.Environment) > 0 && len(b.Environment) > 0 {
			old := a.Environment[0]
			a.Environment[0] = "__probe__=1"
			if b.Environment[0] == "__probe__=1" {
				found["environment"] = true
			}
			a.Environment[0] = old
		}
		if a.DependsOn != nil && b.DependsOn != nil && len(a.DependsOn) > 0 {
			a.DependsOn["__probe__"] = types.ProcessDependency{}
			if _, ok := b.DependsOn["__probe__"]; ok {
				found["depends_on"] = true
			}
			delete(a.DependsOn, "__probe__")
		}
	}
	out := []string{}
	for k := range found {
		out = append(out, k)
	}
	sort.Strings(out)
	return out
}

// LoadMain: pcharness load -seed S -tier T -out file
func LoadMain(args []string) {
	fs := flag.NewFlagSet("load", flag.ExitOnError)
	seed := fs.Int64("seed", 1, "seed")
	tier := fs.String("tier", "quick", "tier")
	out := fs.String("out", "load.ndjson", "output")
	_ = fs.Parse(args)
	f, _ := os.Create(*out)
	rec := &recWriter{w: bufio.NewWriterSize(f, 1<<20)}
	dir, _ := os.MkdirTemp("", "pcload")
	defer os.RemoveAll(dir)
	r := rand.New(rand.NewSource(*seed))
	rounds := 120
	if *tier == "thorough" {
		rounds = 2500
	}
	n := 0
	for k := 0; k < rounds; k++ {
		af := AFile{}
		gvars := []KV{}
		for _, g := range []string{"GV1", "GV2", "SH"} {
			if r.Intn(3) != 0 {
				gvars = append(gvars, KV{g, "g" + strconv.Itoa(r.Intn(90))})
			}
		}
		af.Vars = gvars
		decl := []loadProc{}
		np := 1 + r.Intn(3)
		for pi := 0; pi < np; pi++ {
			name := []string{"web", "db", "job"}[pi]
			lp := loadProc{Name: name, Replicas: []int{0, 1, 2, 3, 10, 11}[r.Intn(6)]}
			if k%7 == 0 && pi == 0 {
				lp.Replicas = []int{2, 3, 10}[r.Intn(3)]
			}
			ap := AProc{Name: name, Replicas: lp.Replicas}
			avail := []string{"PC_REPLICA_NUM", "PC_REPLICA_NUM"}
			for _, g := range gvars {
				avail = append(avail, g[0])
			}
			for _, lv := range []string{"LV1", "SH"} { // SH shadows the global variable of the same name
				if r.Intn(2) == 0 {
					ap.Vars = append(ap.Vars, KV{lv, "l" + name + strconv.Itoa(r.Intn(90))})
					avail = append(avail, lv)
				}
			}
			lp.Vars = append([]KV{}, ap.Vars...)
			if lp.Vars == nil {
				lp.Vars = []KV{}
			}
			probeKind := pickS(r, "", "exec", "http")
			for _, fld := range loadFields {
				isProbe := strings.HasPrefix(fld, "probe.")
				if isProbe && (probeKind == "" || !strings.HasPrefix(fld, "probe."+probeKind)) {
					continue
				}
				var ts []tok
				if fld == "command" || r.Intn(2) == 0 {
					ts = genTokens(r, fld, avail)
				} else {
					continue
				}
				text := renderTpl(ts)
				ja := []any{}
				for _, t := range ts {
					ja = append(ja, []string{t[0], t[1]})
				}
				lp.Fields = append(lp.Fields, []any{fld, ja})
				switch fld {
				case "command", "working_dir", "log_location", "description":
					ap.Opts = append(ap.Opts, KV{fld, text})
				default:
					if ap.Probe == nil {
						ap.Probe = map[string]string{}
					}
					if probeKind == "exec" {
						ap.ProbeKind = "exec"
						ap.Probe["command"] = text
					} else {
						ap.ProbeKind = "http"
						ap.Probe[strings.TrimPrefix(fld, "probe.http.")] = text
					}
				}
			}
			if ap.ProbeKind == "http" {
				for _, must := range []string{"host", "path", "port"} {
					if _, ok := ap.Probe[must]; !ok {
						// untemplated value, still listed as a field (a single literal token)
						ap.Probe[must] = map[string]string{"host": "localhost", "path": "/p", "port": "80"}[must]
						lp.Fields = append(lp.Fields, []any{"probe.http." + must, []any{[]string{"lit", ap.Probe[must]}}})
					}
				}
			}
			if ap.ProbeKind == "exec" {
				if _, ok := ap.Probe["command"]; !ok {
					ap.ProbeKind = ""
				}
			}
			ap.ProbeLive = r.Intn(3) == 0 // a liveness probe instead of a readiness probe
			if r.Intn(4) == 0 {
				ap.Opts = append(ap.Opts, KV{"namespace", "ns" + strconv.Itoa(pi)})
				lp.NsSet = true
			}
			if r.Intn(3) == 0 {
				ap.Env = []KV{{"E1", "v"}}
			}
			if pi > 0 && r.Intn(3) == 0 && decl[0].Replicas <= 1 {
				ap.Deps = []KV{{decl[0].Name, "process_started"}}
			}
			if lp.Fields == nil {
				lp.Fields = [][]any{}
			}
			af.Procs = append(af.Procs, ap)
			decl = append(decl, lp)
		}
		path := writeFile(dir, "load.yaml", af.Render())
		m := map[string]any{"kind": "load", "id": fmt.Sprintf("load-%d-%d", *seed, k), "gvars": gvars, "procs": decl,
			"loads": []any{}, "aliased": []string{}, "loadErr": false}
		loads := []any{}
		var firstErr error
		var lastProject *types.Project
		for rep := 0; rep < 5; rep++ {
			project, err := load([]string{path})
			if err != nil {
				firstErr = err
				break
			}
			loads = append(loads, projectLoaded(project))
			lastProject = project
		}
		if firstErr != nil {
			m["loadErr"] = true
			m["err"] = firstErr.Error()
			m["loads"] = []any{[]any{}}
		} else {
			m["loads"] = loads
			m["aliased"] = findAliasing(lastProject)
		}
		rec.put(m)
		n++
	}
	rec.w.Flush()
	f.Close()
	fmt.Printf("{\"records\":%d,\"histories\":%d}\n", rec.n, n)
}

// ------------------------------------------------------------------ C17 environment

var envValsLoad = []string{"", "1", "a=b", "a b", "'q'", "pa$$word", "cost$", "x y z", "-", "/usr/bin"}

func renderEnvToks(ts []tok) string {
	var b strings.Builder
	for _, t := range ts {
		switch t[0] {
		case "lit":
			b.WriteString(t[1])
		case "var":
			b.WriteString("$" + t[1])
		case "braced":
			b.WriteString("${" + t[1] + "}")
		case "esc":
			b.WriteString("$$")
		}
	}
	return b.String()
}

func genEnvToks(r *rand.Rand, names []string) []tok {
	ts := []tok{}
	n := 1 + r.Intn(4)
	for k := 0; k < n; k++ {
		switch r.Intn(5) {
		case 0:
			ts = append(ts, tok{"lit", pickS(r, "a", "pre", "x.y", "7")})
		case 1:
			ts = append(ts, tok{"var", names[r.Intn(len(names))]})
		case 2:
			ts = append(ts, tok{"braced", names[r.Intn(len(names))]})
		case 3:
			ts = append(ts, tok{"esc", ""})
			if r.Intn(2) == 0 { // $$NAME must stay a literal $NAME
				ts = append(ts, tok{"lit", names[r.Intn(len(names))]})
			}
		default:
			ts = append(ts, tok{"braced", names[r.Intn(len(names))]})
		}
		ts = append(ts, tok{"lit", pickS(r, "-", " ", "/", ":")}) // a separator ends a variable name
	}
	return ts
}

// EnvMain: pcharness env -seed S -tier T -out file   (load-time expansion and launch-time environment)
func EnvMain(args []string) {
	fs := flag.NewFlagSet("env", flag.ExitOnError)
	seed := fs.Int64("seed", 1, "seed")
	tier := fs.String("tier", "quick", "tier")
	out := fs.String("out", "env.ndjson", "output")
	_ = fs.Parse(args)
	f, _ := os.Create(*out)
	rec := &recWriter{w: bufio.NewWriterSize(f, 1<<20)}
	dir, _ := os.MkdirTemp("", "pcenv")
	defer os.RemoveAll(dir)
	r := rand.New(rand.NewSource(*seed))
	rounds := 200
	if *tier == "thorough" {
		rounds = 4000
	}
	varNames := []string{"VA", "VB", "VC", "V_D"}
	n := 0
	for k := 0; k < rounds; k++ {
		environ, dotenv := []KV{}, []KV{}
		for _, vn := range varNames {
			os.Unsetenv(vn)
		}
		for _, vn := range varNames {
			switch r.Intn(4) {
			case 0:
				environ = append(environ, KV{vn, envValsLoad[r.Intn(len(envValsLoad))]})
			case 1:
				dotenv = append(dotenv, KV{vn, pickS(r, "d1", "dot env", "d=e")})
			case 2:
				environ = append(environ, KV{vn, envValsLoad[r.Intn(len(envValsLoad))]})
				dotenv = append(dotenv, KV{vn, "shadowed"})
			}
		}
		for _, kv := range environ {
			os.Setenv(kv[0], kv[1])
		}
		envFile := filepath.Join(dir, "test.env")
		var eb strings.Builder
		for _, kv := range dotenv {
			fmt.Fprintf(&eb, "%s=\"%s\"\n", kv[0], kv[1])
		}
		_ = os.WriteFile(envFile, []byte(eb.String()), 0o644)
		noExpand := r.Intn(6) == 0
		fields := [][]any{}
		ap := AProc{Name: "pe"}
		texts := map[string]string{}
		for _, fld := range []string{"command", "working_dir", "log_location", "envval"} {
			ts := genEnvToks(r, varNames)
			ja := []any{}
			for _, t := range ts {
				ja = append(ja, []string{t[0], t[1]})
			}
			fields = append(fields, []any{fld, ja})
			texts[fld] = renderEnvToks(ts)
		}
		ap.Opts = []KV{{"command", texts["command"]}, {"working_dir", texts["working_dir"]}, {"log_location", texts["log_location"]}}
		ap.Env = []KV{{"EV", texts["envval"]}}
		af := AFile{Procs: []AProc{ap}, NoExpand: noExpand}
		path := writeFile(dir, "env.yaml", af.Render())
		m := map[string]any{"kind": "env", "id": fmt.Sprintf("env-%d-%d", *seed, k), "noExpand": noExpand, "environ": environ,
			"dotenv": dotenv, "fields": fields, "result": []KV{}, "loadErr": false}
		project, err := loader.Load(&loader.LoaderOptions{FileNames: []string{path}, EnvFileNames: []string{envFile}, IsInternalLoader: true})
		if err != nil {
			m["loadErr"] = true
			m["err"] = err.Error()
		} else {
			p := project.Processes["pe"]
			ev := ""
			for _, kv := range splitEnv(p.Environment) {
				if kv[0] == "EV" {
					ev = kv[1]
				}
			}
			m["result"] = []KV{{"command", p.Command}, {"working_dir", p.WorkingDir}, {"log_location", p.LogLocation}, {"envval", ev}}
		}
		rec.put(m)
		n++
		// godotenv.Load exported the .env values into this process: forget them again
		for _, kv := range dotenv {
			os.Unsetenv(kv[0])
		}
		for _, kv := range environ {
			os.Unsetenv(kv[0])
		}
	}
	// ---- launch-time environment
	lrounds := 40
	if *tier == "thorough" {
		lrounds = 600
	}
	watch := []string{"W1", "W2", "W3", "W4", "PC_PROC_NAME", "PC_REPLICA_NUM"}
	for k := 0; k < lrounds; k++ {
		for _, w := range watch {
			os.Unsetenv(w)
		}
		inherited, global, envcmds := []KV{}, []KV{}, []KV{}
		pickLayers := func(key string) {
			mask := r.Intn(16)
			if mask&1 != 0 {
				inherited = append(inherited, KV{key, "inh-" + key})
			}
			if mask&2 != 0 {
				global = append(global, KV{key, pickS(r, "glob-"+key, "g=l", "g l")})
			}
			if mask&4 != 0 && len(envcmds) < 2 {
				envcmds = append(envcmds, KV{key, "cmd-" + key})
			}
		}
		for _, w := range watch[:4] {
			pickLayers(w)
		}
		if r.Intn(8) == 0 {
			inherited = append(inherited, KV{"PC_REPLICA_NUM", "77"})
		}
		for _, kv := range inherited {
			os.Setenv(kv[0], kv[1])
		}
		af := AFile{Env: global}
		for _, kv := range envcmds {
			af.EnvCmds = append(af.EnvCmds, KV{kv[0], "echo " + kv[1]})
		}
		decl := []map[string]any{}
		expect := []string{}
		np := 2 + r.Intn(2)
		for pi := 0; pi < np; pi++ {
			name := []string{"ea", "eb", "ec"}[pi]
			ap := AProc{Name: name, Opts: []KV{{"command", "run " + name}}}
			penv := []KV{}
			for _, w := range watch[:4] {
				if r.Intn(3) == 0 {
					penv = append(penv, KV{w, "proc-" + name + "-" + w})
				}
			}
			ap.Env = penv
			wd := pickS(r, "", "/tmp", dir)
			if wd != "" {
				ap.Opts = append(ap.Opts, KV{"working_dir", wd})
			}
			reps := 1
			if r.Intn(3) == 0 {
				reps = 2
				ap.Replicas = 2
			}
			if pi > 0 && r.Intn(2) == 0 {
				ap.Deps = []KV{{"ea", "process_completed"}} // launched after an earlier process was constructed and ran
			}
			af.Procs = append(af.Procs, ap)
			decl = append(decl, map[string]any{"name": name, "env": penv, "dir": wd})
			for q := 0; q < reps; q++ {
				if reps == 1 {
					expect = append(expect, name)
				} else {
					expect = append(expect, fmt.Sprintf("%s-%d", name, q))
				}
			}
		}
		if af.Procs[0].Replicas > 1 {
			for i := range af.Procs {
				af.Procs[i].Deps = nil
			}
		}
		path := writeFile(dir, "lenv.yaml", af.Render())
		m := map[string]any{"kind": "launchenv", "id": fmt.Sprintf("lenv-%d-%d", *seed, k), "inherited": inherited, "global": global,
			"envcmds": envcmds, "procs": decl, "watch": watch[:4], "launches": []any{}, "expectLaunched": expect, "loadErr": false}
		project, err := load([]string{path})
		if err != nil {
			m["loadErr"] = true
			m["err"] = err.Error()
			rec.put(m)
			n++
			continue
		}
		runner, err := app.NewProjectRunner((&app.ProjectOpts{}).WithProject(project).WithIsTuiOn(true))
		if err != nil {
			m["loadErr"] = true
			rec.put(m)
			n++
			continue
		}
		var mu sync.Mutex
		cmds := []*fakecmd.Cmd{}
		app.VerifReset()
		fakecmd.Reset()
		app.VerifTraceFn, app.VerifGateFn, app.VerifBackoffFn = nil, nil, nil
		app.VerifCommanderFn = func(info app.VerifLaunchInfo) command.Commander {
			c := fakecmd.New(info.Proc, info.Inst, info.Attempt, nil, fakecmd.Behaviour{ExitMode: "auto", AfterTicks: 1, Code: 0})
			mu.Lock()
			cmds = append(cmds, c)
			mu.Unlock()
			return c
		}
		done := make(chan struct{})
		go func() { _ = runner.Run(); close(done) }()
		select {
		case <-done:
		case <-time.After(4 * time.Second):
			go func() { _ = runner.ShutDownProject() }()
			select {
			case <-done:
			case <-time.After(2 * time.Second):
			}
		}
		launches := []map[string]any{}
		mu.Lock()
		for _, c := range cmds {
			eff := map[string]string{}
			for _, kv := range splitEnv(c.Env()) {
				eff[kv[0]] = kv[1] // exec semantics: the last value of a duplicate key wins
			}
			ee := []KV{}
			for _, w := range watch {
				v, ok := eff[w]
				if !ok {
					v = "<unset>"
				}
				ee = append(ee, KV{w, v})
			}
			base := c.Proc
			repl := 0
			if pc, ok := project.Processes[c.Proc]; ok {
				base = pc.Name
				repl = pc.ReplicaNum
			}
			launches = append(launches, map[string]any{"rname": c.Proc, "proc": base, "replica": repl, "envEff": ee, "dir": c.Dir()})
		}
		mu.Unlock()
		sort.Slice(launches, func(a, b int) bool { return launches[a]["rname"].(string) < launches[b]["rname"].(string) })
		m["launches"] = launches
		rec.put(m)
		n++
		for _, kv := range inherited {
			os.Unsetenv(kv[0])
		}
	}
	rec.w.Flush()
	f.Close()
	fmt.Printf("{\"records\":%d,\"histories\":%d}\n", rec.n, n)
}

// ------------------------------------------------------------------ C10 probe parameters

// ProbeMain: pcharness probe -out file : full grid of probe parameterisations through ValidateAndSetDefaults / health.New
func ProbeMain(args []string) {
	fs := flag.NewFlagSet("probe", flag.ExitOnError)
	_ = fs.Int64("seed", 1, "seed")
	_ = fs.String("tier", "quick", "tier")
	out := fs.String("out", "probe.ndjson", "output")
	_ = fs.Parse(args)
	f, _ := os.Create(*out)
	rec := &recWriter{w: bufio.NewWriterSize(f, 1<<20)}
	vals := []int{-5, -1, 0, 1, 2, 10}
	ports := []string{"", "0", "1", "80", "65535", "65536", "-1", "abc", "{{.X}}", " 80", "8080"}
	n := 0
	for _, ini := range vals {
		for _, per := range vals {
			for _, to := range vals {
				for _, su := range []int{-1, 0, 1, 3} {
					for _, fa := range []int{-1, 0, 1, 3} {
						for pi, port := range ports {
							if (ini+per+to+su+fa+pi)%3 != 0 && !(ini == 0 && per == 1) {
								continue
							}
							pr := health.Probe{InitialDelay: ini, PeriodSeconds: per, TimeoutSeconds: to, SuccessThreshold: su, FailureThreshold: fa,
								HttpGet: &health.HttpProbe{Host: "localhost", Port: port, Path: "/"}}
							pr.ValidateAndSetDefaults()
							pn, err := strconv.Atoi(port)
							if err != nil {
								pn = 0
							}
							_, nerr := health.New("x", health.Probe{InitialDelay: ini, PeriodSeconds: per, TimeoutSeconds: to, SuccessThreshold: su,
								FailureThreshold: fa, HttpGet: &health.HttpProbe{Host: "localhost", Port: port, Path: "/"}}, func(bool, bool, string) {})
							rec.put(map[string]any{"kind": "probe", "id": fmt.Sprintf("probe-%d", n),
								"inp": map[string]any{"initial": ini, "period": per, "timeout": to, "success": su, "failure": fa, "port": port, "portNum": pn},
								"out": map[string]any{"initial": pr.InitialDelay, "period": pr.PeriodSeconds, "timeout": pr.TimeoutSeconds,
									"success": pr.SuccessThreshold, "failure": pr.FailureThreshold, "numPort": pr.HttpGet.NumPort},
								"newErr": nerr != nil})
							n++
						}
					}
				}
			}
		}
	}
	rec.w.Flush()
	f.Close()
	fmt.Printf("{\"records\":%d,\"histories\":%d}\n", rec.n, n)
}
