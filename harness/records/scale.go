package records

import (
	"bufio"
	"flag"
	"fmt"
	"math/rand"
	"os"
	"sort"
	"strconv"
	"strings"
	"sync"
	"time"

	"github.com/f1bonacc1/process-compose/src/app"
	"github.com/f1bonacc1/process-compose/src/command"
	"github.com/f1bonacc1/process-compose/src/health"
	"github.com/f1bonacc1/process-compose/src/types"

	"verifharness/fakecmd"
)

// liveRunner is a real ProjectRunner with scripted commanders plus the bookkeeping needed to project
// its state for the scale / update records.
type liveRunner struct {
	runner   *app.ProjectRunner
	mu       sync.Mutex
	meta     map[int64][2]any // commander serial -> (base name, replica number) at launch
	auto     map[string]int   // base name -> exits on its own after that many ticks (0: runs until signalled)
	autoCode map[string]int   // ... with this exit code
	done     chan struct{}
}

func startLive(project *types.Project, auto map[string]int) *liveRunner {
	lr := &liveRunner{meta: map[int64][2]any{}, auto: auto, autoCode: map[string]int{}, done: make(chan struct{})}
	app.VerifReset()
	fakecmd.Reset()
	app.VerifTraceFn, app.VerifGateFn = nil, nil
	app.VerifBackoffFn = func(proc string, inst int64, d time.Duration) (time.Duration, bool) { return d / 50, true }
	app.VerifCommanderFn = func(info app.VerifLaunchInfo) command.Commander {
		b := fakecmd.Behaviour{ExitMode: "signal", SigCode: -1}
		if t, ok := lr.auto[info.Conf.Name]; ok && t > 0 {
			b = fakecmd.Behaviour{ExitMode: "auto", AfterTicks: t, Code: lr.autoCode[info.Conf.Name]}
		}
		// a few lines of output, so that the log routes have something to show
		for k := 0; k < 12; k++ {
			b.Out = append(b.Out, fakecmd.OutItem{AtTick: k / 6, Stream: "stdout", Text: fmt.Sprintf("%s line %d", info.Proc, k)})
		}
		argv := append([]string{info.Executable}, info.Args...)
		c := fakecmd.New(info.Proc, info.Inst, info.Attempt, argv, b)
		lr.mu.Lock()
		lr.meta[c.Serial] = [2]any{info.Conf.Name, info.Conf.ReplicaNum}
		lr.mu.Unlock()
		return c
	}
	runner, err := app.NewProjectRunner((&app.ProjectOpts{}).WithProject(project).WithIsTuiOn(true))
	if err != nil {
		return nil
	}
	lr.runner = runner
	go func() { _ = runner.Run(); close(lr.done) }()
	waitSpawned(runner, len(project.Processes))
	return lr
}

// waitSpawned waits until Run() has registered an instance for every configured process (on a slow or loaded
// machine the Run goroutine may not have got that far when the caller goes on)
func waitSpawned(runner *app.ProjectRunner, n int) {
	for t0 := time.Now(); time.Since(t0) < 3*time.Second; time.Sleep(200 * time.Microsecond) {
		if running, done := runner.VerifRegistries(); len(running)+len(done) >= n {
			return
		}
	}
}

func (lr *liveRunner) stop() {
	fin := make(chan struct{})
	go func() { _ = lr.runner.ShutDownProject(); close(fin) }()
	select {
	case <-fin:
	case <-time.After(3 * time.Second):
	}
	select {
	case <-lr.done:
	case <-time.After(2 * time.Second):
	}
	fakecmd.KillAll()
}

func infoFields(p *types.ProcessConfig) []KV {
	f := []KV{{"command", p.Command}, {"working_dir", p.WorkingDir}, {"log_location", p.LogLocation}, {"description", p.Description}}
	if p.ReadinessProbe != nil && p.ReadinessProbe.Exec != nil {
		f = append(f, KV{"probe.exec.command", p.ReadinessProbe.Exec.Command})
	}
	return f
}

func safeStates(r *app.ProjectRunner) (st *types.ProcessesState, err error) {
	defer func() {
		if rec := recover(); rec != nil {
			err = fmt.Errorf("panic: %v", rec)
		}
	}()
	return r.GetProcessesState()
}

// snapshot projects what the statement of C13 / C14 talks about.
func (lr *liveRunner) snapshot(watchEnv []string) map[string]any {
	r := lr.runner
	conf, states, logs, running := r.VerifMapKeys()
	for _, l := range [][]string{conf, states, logs, running} {
		sort.Strings(l)
	}
	procs := []map[string]any{}
	stateErr := false
	st, err := safeStates(r)
	if err != nil {
		stateErr = true
	}
	statusOf := map[string]string{}
	if st != nil {
		for _, s := range st.States {
			statusOf[s.Name] = s.Status
		}
	}
	for _, name := range conf {
		info, ierr := r.GetProcessInfo(name)
		if ierr != nil {
			continue
		}
		_, lerr := r.GetProcessLog(name, 0, 1)
		status, has := statusOf[name]
		procs = append(procs, map[string]any{"rname": name, "base": info.Name, "num": info.ReplicaNum, "replicas": info.Replicas,
			"status": status, "hasState": has, "fields": infoFields(info), "logOk": lerr == nil, "confRname": info.ReplicaName})
	}
	cmds := []map[string]any{}
	lr.mu.Lock()
	for _, c := range fakecmd.All() {
		m := lr.meta[c.Serial]
		envW := []KV{}
		eff := map[string]string{}
		for _, kv := range splitEnv(c.Env) {
			eff[kv[0]] = kv[1]
		}
		for _, w := range watchEnv {
			v, ok := eff[w]
			if !ok {
				v = "<unset>"
			}
			envW = append(envW, KV{w, v})
		}
		cmds = append(cmds, map[string]any{"serial": c.Serial, "base": m[0], "num": m[1], "rname": c.Proc, "alive": c.Alive, "signalled": c.Signalled,
			"launchSeq": c.LaunchSeq, "exitSeq": c.ExitSeq, "sigSeq": c.SigSeq, "argv": c.Argv, "dir": c.Dir, "env": envW})
	}
	lr.mu.Unlock()
	return map[string]any{"procs": procs, "stateErr": stateErr,
		"keys": map[string]any{"conf": conf, "states": states, "logs": logs, "running": running}, "cmds": cmds}
}

// settle waits until the set of alive commands has been stable for a little while.
func settle() {
	last := -1
	stable := 0
	for k := 0; k < 150 && stable < 12; k++ {
		n := fakecmd.Alive()
		if n == last {
			stable++
		} else {
			stable = 0
			last = n
		}
		time.Sleep(2 * time.Millisecond)
	}
}

func scaleYAML(r0 int, tokens map[string][]tok, withProbe bool, gated bool) AFile {
	w := AProc{Name: "w", Replicas: r0}
	if gated {
		// every replica of w waits for u to complete; u runs until it is stopped
		w.Deps = []KV{{"u", "process_completed"}}
	}
	for _, f := range []string{"command", "working_dir", "log_location", "description"} {
		if ts, ok := tokens[f]; ok {
			w.Opts = append(w.Opts, KV{f, renderTpl(ts)})
		}
	}
	if ts, ok := tokens["probe.exec.command"]; ok && withProbe {
		w.ProbeKind = "exec"
		w.Probe = map[string]string{"command": renderTpl(ts)}
	}
	u := AProc{Name: "u", Opts: []KV{{"command", "run u"}}}
	d := AProc{Name: "d", Opts: []KV{{"command", "run d"}}, Deps: []KV{{"u", "process_started"}}}
	return AFile{Procs: []AProc{w, u, d}, Vars: []KV{{"GV", "gval"}}}
}

// ScaleMain: pcharness scale -seed S -tier T -out file   (C13 scale records and C14 update records)
func ScaleMain(args []string) {
	fs := flag.NewFlagSet("scale", flag.ExitOnError)
	seed := fs.Int64("seed", 1, "seed")
	tier := fs.String("tier", "quick", "tier")
	out := fs.String("out", "scale.ndjson", "output")
	only := fs.String("only", "", "scale | update")
	_ = fs.Parse(args)
	f, _ := os.Create(*out)
	rec := &recWriter{w: bufio.NewWriterSize(f, 1<<20)}
	dir, _ := os.MkdirTemp("", "pcscale")
	defer os.RemoveAll(dir)
	r := rand.New(rand.NewSource(*seed))
	hist := 0
	if *only != "update" {
		targets := []int{1, 2, 3, 9, 10, 11}
		seqs := 40
		if *tier == "thorough" {
			seqs = 400
			targets = []int{1, 2, 3, 9, 10, 11, 99, 100, 101}
		}
		for k := 0; k < seqs; k++ {
			tokens := map[string][]tok{"command": {{"lit", "serve --port 80"}, {"var", "PC_REPLICA_NUM"}, {"lit", " --g "}, {"var", "GV"}}}
			if r.Intn(2) == 0 {
				tokens["description"] = []tok{{"lit", "replica "}, {"var", "PC_REPLICA_NUM"}}
			}
			if r.Intn(2) == 0 {
				tokens["log_location"] = []tok{{"lit", dir + "/w-"}, {"var", "PC_REPLICA_NUM"}, {"lit", ".log"}}
			}
			if r.Intn(3) == 0 {
				tokens["working_dir"] = []tok{{"lit", "/tmp"}}
			}
			withProbe := r.Intn(2) == 0
			if withProbe {
				tokens["probe.exec.command"] = []tok{{"lit", "check "}, {"var", "PC_REPLICA_NUM"}}
			}
			r0 := []int{1, 1, 2, 3}[r.Intn(4)]
			gated := r.Intn(4) == 0
			af := scaleYAML(r0, tokens, withProbe, gated)
			path := writeFile(dir, "scale.yaml", af.Render())
			project, err := load([]string{path})
			if err != nil {
				continue
			}
			auto := map[string]int{}
			someFinish := r.Intn(3) == 0 // some replicas of w finish on their own before the next request
			if someFinish {
				auto["w"] = 3
			}
			lr := startLive(project, auto)
			if lr == nil {
				continue
			}
			settle()
			hist++
			cur := r0
			jtok := [][]any{}
			for fn, ts := range tokens {
				ja := []any{}
				for _, t := range ts {
					ja = append(ja, []string{t[0], t[1]})
				}
				jtok = append(jtok, []any{fn, ja})
			}
			sort.Slice(jtok, func(a, b int) bool { return jtok[a][0].(string) < jtok[b][0].(string) })
			steps := 3
			for s := 0; s < steps; s++ {
				name := "w"
				n := targets[r.Intn(len(targets))]
				switch r.Intn(12) {
				case 0:
					n = 0
				case 1:
					n = -1
				case 2:
					name = "nosuch"
				case 3:
					name = "w-7777" // stale / non-existent replica name
				case 4:
					n = cur // to the current value
				}
				if cur > 1 && name == "w" && r.Intn(8) != 0 {
					// address the process by one of its current replica names (the bare name is no key any more)
					name = fmt.Sprintf("w-%0*d", len(strconv.Itoa(cur)), r.Intn(cur))
				}
				if someFinish {
					time.Sleep(12 * time.Millisecond)
					lr.auto["w"] = 0 // replicas added from now on keep running
				}
				before := lr.snapshot(nil)
				serr := lr.runner.ScaleProcess(name, n)
				settle()
				after := lr.snapshot(nil)
				// what a fresh load with replicas: n gives
				fresh := []map[string]any{}
				if serr == nil && n >= 1 {
					af2 := scaleYAML(n, tokens, withProbe, gated)
					p2 := writeFile(dir, "fresh.yaml", af2.Render())
					if pr2, e2 := load([]string{p2}); e2 == nil {
						names := []string{}
						for nm := range pr2.Processes {
							names = append(names, nm)
						}
						sort.Strings(names)
						for _, nm := range names {
							pc := pr2.Processes[nm]
							fresh = append(fresh, map[string]any{"rname": nm, "base": pc.Name, "num": pc.ReplicaNum, "replicas": pc.Replicas, "fields": infoFields(&pc)})
						}
					}
				}
				known := name == "w" || strings.HasPrefix(name, "w-") && name != "w-7777"
				rec.put(map[string]any{"kind": "scale", "id": fmt.Sprintf("scale-%d-%d-%d", *seed, k, s), "name": name, "n": n, "known": known,
					"err": serr != nil, "base": "w", "cur": cur, "tokens": jtok, "gvars": []KV{{"GV", "gval"}},
					"before": before, "after": after, "fresh": fresh, "someFinished": someFinish, "gated": gated})
				if serr == nil && n >= 1 {
					cur = n
				}
			}
			if gated {
				// release the gate: u completes, now every current replica of w is launched (and only now)
				_ = lr.runner.StopProcess("u")
				settle()
				time.Sleep(10 * time.Millisecond)
				settle()
				rec.put(map[string]any{"kind": "scalegate", "id": fmt.Sprintf("scalegate-%d-%d", *seed, k), "base": "w", "gate": "u", "n": cur,
					"final": lr.snapshot(nil)})
			}
			lr.stop()
		}
	}
	if *only != "scale" {
		updateRecords(rec, r, dir, *seed, *tier, &hist)
	}
	rec.w.Flush()
	f.Close()
	fmt.Printf("{\"records\":%d,\"histories\":%d}\n", rec.n, hist)
}

// ------------------------------------------------------------------ C14 live update

type updProc struct {
	name   string
	opts   map[string]string // yaml option -> value
	env    []KV
	deps   []KV
	probe  string
	entry  []string
	policy string
	signal int
	reps   int // replicas (0: one)
}

func (u updProc) render() AProc {
	p := AProc{Name: u.name}
	keys := []string{}
	for k := range u.opts {
		keys = append(keys, k)
	}
	sort.Strings(keys)
	for _, k := range keys {
		p.Opts = append(p.Opts, KV{k, u.opts[k]})
	}
	p.Env = u.env
	p.Deps = u.deps
	p.Replicas = u.reps
	if u.probe != "" {
		p.ProbeKind = "exec"
		p.Probe = map[string]string{"command": u.probe}
	}
	return p
}

func renderUpd(ps []updProc, tgt string) string {
	af := AFile{Vars: []KV{{"TGT", tgt}}}
	for _, u := range ps {
		p := u.render()
		if len(u.entry) > 0 {
			p.Extra = append(p.Extra, "    entrypoint:")
			for _, e := range u.entry {
				p.Extra = append(p.Extra, "      - "+yq(e))
			}
		}
		if u.policy != "" {
			p.Extra = append(p.Extra, "    availability:", "      restart: "+u.policy)
		}
		if u.signal != 0 {
			p.Extra = append(p.Extra, "    shutdown:", "      signal: "+strconv.Itoa(u.signal))
		}
		af.Procs = append(af.Procs, p)
	}
	return af.Render()
}

var relevantFields = []string{"command", "entrypoint", "environment", "working_dir", "readiness_probe", "restart_policy", "shutdown", "depends_on"}

func cloneUpd(u updProc) updProc {
	c := u
	c.opts = map[string]string{}
	for k, v := range u.opts {
		c.opts[k] = v
	}
	c.env = append([]KV{}, u.env...)
	c.deps = append([]KV{}, u.deps...)
	c.entry = append([]string{}, u.entry...)
	return c
}

func mutate(r *rand.Rand, u updProc, field string, tag string) updProc {
	c := cloneUpd(u)
	switch field {
	case "command":
		c.opts["command"] = "run " + u.name + " " + tag
	case "entrypoint":
		c.entry = []string{"/bin/" + tag, u.name}
	case "environment":
		c.env = append(c.env, KV{"UW", tag})
	case "working_dir":
		c.opts["working_dir"] = pickS(r, "/tmp", "/", "/usr")
		if c.opts["working_dir"] == u.opts["working_dir"] {
			c.opts["working_dir"] = "/var"
		}
	case "readiness_probe":
		c.probe = "check " + tag
	case "restart_policy":
		if u.policy == "on_failure" {
			c.policy = "always"
		} else {
			c.policy = "on_failure"
		}
	case "shutdown":
		c.signal = 2 + r.Intn(10)
		if c.signal == u.signal {
			c.signal++
		}
	case "depends_on":
		c.deps = []KV{{"anchor", "process_started"}}
		if len(u.deps) > 0 {
			c.deps = nil
		}
	case "description":
		c.opts["description"] = "text " + tag
	}
	return c
}

// compareRecords: ProcessConfig.Compare on pairs that differ in exactly the listed fields
func compareRecords(rec *recWriter) {
	mk := func() types.ProcessConfig {
		return types.ProcessConfig{Name: "p", ReplicaName: "p", Command: "run p", Executable: "bash", Args: []string{"-c", "run p"},
			Environment: types.Environment{"A=1"}, WorkingDir: "/tmp", Namespace: "default", Replicas: 1, LogLocation: "/tmp/p.log",
			ReadinessProbe: &health.Probe{Exec: &health.ExecProbe{Command: "check"}, PeriodSeconds: 5},
			LivenessProbe:  &health.Probe{HttpGet: &health.HttpProbe{Host: "h", Port: "80", Path: "/"}},
			RestartPolicy:  types.RestartPolicyConfig{Restart: "on_failure", MaxRestarts: 2, BackoffSeconds: 1},
			ShutDownParams: types.ShutDownParams{Signal: 15, ShutDownTimeout: 3, ShutDownCommand: "bye"},
			DependsOn:      types.DependsOnConfig{"k": {Condition: "process_started"}}, Description: "d"}
	}
	muts := map[string]func(*types.ProcessConfig){
		"executable":        func(p *types.ProcessConfig) { p.Executable = "sh" },
		"entrypoint":        func(p *types.ProcessConfig) { p.Entrypoint = []string{"x", "y"} },
		"args":              func(p *types.ProcessConfig) { p.Args = []string{"-c", "run q"} },
		"command":           func(p *types.ProcessConfig) { p.Command = "run q" },
		"environment":       func(p *types.ProcessConfig) { p.Environment = types.Environment{"A=2"} },
		"environment.add":   func(p *types.ProcessConfig) { p.Environment = append(p.Environment, "B=1") },
		"working_dir":       func(p *types.ProcessConfig) { p.WorkingDir = "/" },
		"readiness.command": func(p *types.ProcessConfig) { p.ReadinessProbe.Exec.Command = "check2" },
		"readiness.period":  func(p *types.ProcessConfig) { p.ReadinessProbe.PeriodSeconds = 7 },
		"readiness.removed": func(p *types.ProcessConfig) { p.ReadinessProbe = nil },
		"liveness.port":     func(p *types.ProcessConfig) { p.LivenessProbe.HttpGet.Port = "81" },
		"restart":           func(p *types.ProcessConfig) { p.RestartPolicy.Restart = "always" },
		"max_restarts":      func(p *types.ProcessConfig) { p.RestartPolicy.MaxRestarts = 3 },
		"backoff":           func(p *types.ProcessConfig) { p.RestartPolicy.BackoffSeconds = 2 },
		"exit_on_end":       func(p *types.ProcessConfig) { p.RestartPolicy.ExitOnEnd = true },
		"shutdown.signal":   func(p *types.ProcessConfig) { p.ShutDownParams.Signal = 2 },
		"shutdown.timeout":  func(p *types.ProcessConfig) { p.ShutDownParams.ShutDownTimeout = 4 },
		"shutdown.command":  func(p *types.ProcessConfig) { p.ShutDownParams.ShutDownCommand = "ciao" },
		"depends_on.cond": func(p *types.ProcessConfig) {
			p.DependsOn = types.DependsOnConfig{"k": {Condition: "process_completed"}}
		},
		"depends_on.add": func(p *types.ProcessConfig) { p.DependsOn["j"] = types.ProcessDependency{Condition: "process_started"} },
		"is_daemon":      func(p *types.ProcessConfig) { p.IsDaemon = true },
		"ready_log_line": func(p *types.ProcessConfig) { p.ReadyLogLine = "up" },
		"log_location":   func(p *types.ProcessConfig) { p.LogLocation = "/tmp/q.log" },
		"description":    func(p *types.ProcessConfig) { p.Description = "e" },
	}
	relevant := []string{}
	names := []string{}
	for k := range muts {
		names = append(names, k)
		if k != "description" {
			relevant = append(relevant, k)
		}
	}
	sort.Strings(names)
	sort.Strings(relevant)
	n := 0
	emit := func(changed []string) {
		a, b := mk(), mk()
		for _, c := range changed {
			muts[c](&b)
		}
		rec.put(map[string]any{"kind": "compare", "id": fmt.Sprintf("compare-%d", n), "changed": changed, "relevant": relevant,
			"equal": a.Compare(&b), "equalRev": b.Compare(&a)})
		n++
	}
	emit([]string{})
	for _, x := range names {
		emit([]string{x})
	}
	for i, x := range names {
		for _, y := range names[i+1:] {
			if strings.Split(x, ".")[0] == strings.Split(y, ".")[0] {
				continue
			}
			emit([]string{x, y})
		}
	}
}

func crasherList(m map[string]bool) []string {
	out := []string{}
	for k := range m {
		out = append(out, k)
	}
	sort.Strings(out)
	return out
}

func updateRecords(rec *recWriter, r *rand.Rand, dir string, seed int64, tier string, hist *int) {
	compareRecords(rec)
	rounds := 60
	if tier == "thorough" {
		rounds = 700
	}
	for k := 0; k < rounds; k++ {
		base := []updProc{{name: "anchor", opts: map[string]string{"command": "run anchor"}}}
		crashers := map[string]bool{}
		np := 2 + r.Intn(3)
		for i := 0; i < np; i++ {
			u := updProc{name: fmt.Sprintf("s%d", i), opts: map[string]string{"command": fmt.Sprintf("run s%d v0", i)}}
			if r.Intn(3) == 0 {
				u.opts["command"] = fmt.Sprintf("run s%d on {{.TGT}}", i) // rendered from a project-level variable
			}
			if r.Intn(3) == 0 {
				u.entry = []string{"/bin/tool", u.name}
				delete(u.opts, "command")
			}
			if r.Intn(2) == 0 {
				u.env = []KV{{"UW", "v0"}}
			}
			if r.Intn(3) == 0 {
				u.probe = "check v0"
			}
			if r.Intn(3) == 0 {
				u.opts["working_dir"] = "/tmp"
			}
			if r.Intn(4) == 0 {
				u.policy = "on_failure" // crash-looping: mostly found in its restart back-off
				crashers[u.name] = true
			} else if r.Intn(4) == 0 {
				u.reps = 2 // a replicated process: the update is per replica (keys are replica names)
			}
			base = append(base, u)
		}
		tgt := "t0"
		path := writeFile(dir, "upd0.yaml", renderUpd(base, tgt))
		project, err := load([]string{path})
		if err != nil {
			continue
		}
		auto := map[string]int{}
		for nm := range crashers {
			auto[nm] = 2
		}
		lr := startLive(project, auto)
		if lr == nil {
			continue
		}
		for nm := range crashers {
			lr.autoCode[nm] = 1
		}
		settle()
		*hist++
		cur := base
		for step := 0; step < 1+r.Intn(3); step++ {
			next := []updProc{cur[0]}
			changes := []map[string]any{}
			varChange := r.Intn(4) == 0
			if varChange {
				tgt = fmt.Sprintf("t%d", step+1)
			}
			for _, u := range cur[1:] {
				usesVar := strings.Contains(u.opts["command"], "{{.TGT}}")
				if varChange && usesVar {
					// only the project-level variable changes: the rendered command differs
					next = append(next, u)
					changes = append(changes, map[string]any{"name": u.name, "kind": "changed", "fields": []string{"command(var)"}})
					continue
				}
				switch r.Intn(6) {
				case 0: // removed
					changes = append(changes, map[string]any{"name": u.name, "kind": "removed", "fields": []string{}})
				case 1, 2: // changed in launch-relevant fields
					nf := 1 + r.Intn(2)
					c := u
					fields := []string{}
					used := map[string]bool{}
					for j := 0; j < nf; j++ {
						fld := relevantFields[r.Intn(len(relevantFields))]
						if used[fld] {
							continue // toggling fields (restart policy, depends_on) would cancel out
						}
						used[fld] = true
						if fld == "command" && len(u.entry) > 0 {
							fld = "entrypoint"
						}
						if fld == "entrypoint" && len(u.entry) == 0 {
							fld = "command"
						}
						c = mutate(r, c, fld, fmt.Sprintf("v%d_%d", step+1, j))
						fields = append(fields, fld)
					}
					next = append(next, c)
					changes = append(changes, map[string]any{"name": u.name, "kind": "changed", "fields": fields})
				case 3: // cosmetic change only
					c := mutate(r, u, "description", fmt.Sprintf("v%d", step+1))
					next = append(next, c)
					changes = append(changes, map[string]any{"name": u.name, "kind": "cosmetic", "fields": []string{"description"}})
				default:
					next = append(next, u)
					changes = append(changes, map[string]any{"name": u.name, "kind": "same", "fields": []string{}})
				}
			}
			if r.Intn(2) == 0 {
				nm := fmt.Sprintf("n%d_%d", k, step)
				nu := updProc{name: nm, opts: map[string]string{"command": "run " + nm}}
				if r.Intn(2) == 0 {
					// the added process waits for anchor (which keeps running) to complete: it must stay pending
					nu.deps = []KV{{"anchor", "process_completed"}}
				}
				next = append(next, nu)
				changes = append(changes, map[string]any{"name": nm, "kind": "added", "fields": []string{}})
			}
			changes = append(changes, map[string]any{"name": "anchor", "kind": "same", "fields": []string{}})
			gatedSet := map[string]bool{}
			for _, u := range next {
				for _, d := range u.deps {
					if d[0] == "anchor" && d[1] == "process_completed" {
						gatedSet[u.name] = true
					}
				}
			}
			for _, ch := range changes {
				ch["gated"] = gatedSet[ch["name"].(string)]
			}
			// a replicated process is updated replica by replica: one change entry per replica name
			repsOf := map[string]int{}
			for _, u := range cur {
				repsOf[u.name] = u.reps
			}
			expanded := []map[string]any{}
			for _, ch := range changes {
				nm := ch["name"].(string)
				if repsOf[nm] <= 1 {
					expanded = append(expanded, ch)
					continue
				}
				for k := 0; k < repsOf[nm]; k++ {
					c2 := map[string]any{}
					for kk, vv := range ch {
						c2[kk] = vv
					}
					c2["name"] = fmt.Sprintf("%s-%d", nm, k)
					expanded = append(expanded, c2)
				}
			}
			changes = expanded
			p2 := writeFile(dir, fmt.Sprintf("upd%d.yaml", step+1), renderUpd(next, tgt))
			project2, err := load([]string{p2})
			if err != nil {
				break
			}
			expect := []map[string]any{}
			newNames := []string{}
			for nm, pc := range project2.Processes {
				newNames = append(newNames, nm)
				uw := "<unset>"
				for _, kv := range splitEnv(pc.Environment) {
					if kv[0] == "UW" {
						uw = kv[1]
					}
				}
				argv := append([]string{pc.Executable}, pc.Args...)
				expect = append(expect, map[string]any{"name": nm, "argv": argv, "dir": pc.WorkingDir, "uw": uw})
			}
			sort.Strings(newNames)
			sort.Slice(expect, func(a, b int) bool { return expect[a]["name"].(string) < expect[b]["name"].(string) })
			before := lr.snapshot([]string{"UW"})
			status, uerr := lr.runner.UpdateProject(project2)
			settle()
			after := lr.snapshot([]string{"UW"})
			time.Sleep(70 * time.Millisecond) // longer than the (scaled) restart back-off
			later := lr.snapshot([]string{"UW"})
			st := []KV{}
			for kname, v := range status {
				st = append(st, KV{kname, v})
			}
			sort.Slice(st, func(a, b int) bool { return st[a][0] < st[b][0] })
			rec.put(map[string]any{"kind": "update", "id": fmt.Sprintf("update-%d-%d-%d", seed, k, step), "changes": changes, "newNames": newNames,
				"expect": expect, "status": st, "err": uerr != nil, "errText": fmt.Sprint(uerr), "before": before, "after": after, "later": later, "crashers": crasherList(crashers)})
			if uerr != nil {
				break
			}
			cur = next
		}
		lr.stop()
	}
}

// ------------------------------------------------------------------ C12: ordered shutdown while a removal is in flight

// OrdShutMain: pcharness ordshut -seed S -tier T -out file
// A dependent that is slow to terminate is being removed (scale down of one of its replicas, or an update that
// drops or changes it) when an ordered project shutdown begins: the process it depends on must not be signalled
// while that dependent is still alive.
func OrdShutMain(args []string) {
	fs := flag.NewFlagSet("ordshut", flag.ExitOnError)
	seed := fs.Int64("seed", 1, "seed")
	tier := fs.String("tier", "quick", "tier")
	out := fs.String("out", "ordshut.ndjson", "output")
	_ = fs.Parse(args)
	f, _ := os.Create(*out)
	rec := &recWriter{w: bufio.NewWriterSize(f, 1<<20)}
	dir, _ := os.MkdirTemp("", "pcordshut")
	defer os.RemoveAll(dir)
	r := rand.New(rand.NewSource(*seed))
	rounds := 40
	if *tier == "thorough" {
		rounds = 400
	}
	for k := 0; k < rounds; k++ {
		mode := []string{"scaledown", "remove", "change", "none"}[r.Intn(4)]
		reps := 1
		if mode == "scaledown" {
			reps = 2 + r.Intn(2)
		}
		// names are unique per history: a command that a request of the previous history launches late (an update that
		// outlives its shutdown) cannot be mistaken for one of this history
		dbN, wkN, otN := fmt.Sprintf("db%d", k), fmt.Sprintf("worker%d", k), fmt.Sprintf("other%d", k)
		db := AProc{Name: dbN, Opts: []KV{{"command", "run db"}}}
		wk := AProc{Name: wkN, Opts: []KV{{"command", "run worker v0"}}, Deps: []KV{{dbN, "process_started"}}, Replicas: reps}
		other := AProc{Name: otN, Opts: []KV{{"command", "run other"}}}
		nfile := 0
		mkFile := func(procs ...AProc) string {
			af := AFile{Procs: procs}
			nfile++
			return writeFile(dir, fmt.Sprintf("ordshut-%d-%d.yaml", k, nfile), af.Render())
		}
		project, err := load([]string{mkFile(db, wk, other)})
		if err != nil {
			continue
		}
		app.VerifReset()
		fakecmd.Reset()
		app.VerifTraceFn, app.VerifGateFn = nil, nil
		app.VerifBackoffFn = func(proc string, inst int64, d time.Duration) (time.Duration, bool) { return d / 50, true }
		lat := 10 + r.Intn(25) // ticks the worker needs to die after its stop signal
		metaMu := sync.Mutex{}
		meta := map[int64]string{}
		app.VerifCommanderFn = func(info app.VerifLaunchInfo) command.Commander {
			b := fakecmd.Behaviour{ExitMode: "signal", SigCode: -1}
			if info.Conf.Name == wkN {
				b.StopLatency = lat
			}
			c := fakecmd.New(info.Proc, info.Inst, info.Attempt, nil, b)
			metaMu.Lock()
			meta[c.Serial] = info.Conf.Name
			metaMu.Unlock()
			return c
		}
		runner, err := app.NewProjectRunner((&app.ProjectOpts{}).WithProject(project).WithIsTuiOn(true).WithOrderedShutDown(true))
		if err != nil {
			continue
		}
		runDone := make(chan struct{})
		go func() { _ = runner.Run(); close(runDone) }()
		waitSpawned(runner, len(project.Processes))
		settle()
		// the removal, in its own goroutine (it waits for the worker to die)
		victim := r.Intn(reps)
		remDone := make(chan struct{})
		go func() {
			defer close(remDone)
			switch mode {
			case "scaledown":
				_ = runner.ScaleProcess(fmt.Sprintf("%s-%d", wkN, victim), reps-1)
			case "remove":
				if p2, e2 := load([]string{mkFile(db, other)}); e2 == nil {
					_, _ = runner.UpdateProject(p2)
				}
			case "change":
				wk2 := wk
				wk2.Opts = []KV{{"command", "run worker v1"}}
				if p2, e2 := load([]string{mkFile(db, wk2, other)}); e2 == nil {
					_, _ = runner.UpdateProject(p2)
				}
			}
		}()
		time.Sleep(time.Duration(200+r.Intn(6000)) * time.Microsecond)
		shutSeq := fakecmd.NextSeq()
		shutDone := make(chan struct{})
		go func() { _ = runner.ShutDownProject(); close(shutDone) }()
		shutReturned, runReturned := true, true
		select {
		case <-shutDone:
		case <-time.After(5 * time.Second):
			shutReturned = false
		}
		select {
		case <-runDone:
		case <-time.After(3 * time.Second):
			runReturned = false
		}
		select {
		case <-remDone:
		case <-time.After(3 * time.Second):
		}
		cmds := []map[string]any{}
		metaMu.Lock()
		for _, c := range fakecmd.All() {
			if b := meta[c.Serial]; b != dbN && b != wkN && b != otN {
				continue // launched by a request of an earlier history
			}
			cmds = append(cmds, map[string]any{"serial": c.Serial, "base": meta[c.Serial], "rname": c.Proc, "alive": c.Alive, "signalled": c.Signalled,
				"launchSeq": c.LaunchSeq, "exitSeq": c.ExitSeq, "sigSeq": c.SigSeq})
		}
		metaMu.Unlock()
		// whatever the removal request started after the shutdown (an update launches the replacement) is stopped now
		fin := make(chan struct{})
		go func() { _ = runner.ShutDownProject(); close(fin) }()
		select {
		case <-fin:
		case <-time.After(3 * time.Second):
		}
		rec.put(map[string]any{"kind": "ordshut", "id": fmt.Sprintf("ordshut-%d-%d", *seed, k), "mode": mode, "replicas": reps, "latencyTicks": lat,
			"edges": [][]string{{wkN, dbN}}, "shutSeq": shutSeq, "shutReturned": shutReturned, "runReturned": runReturned, "cmds": cmds})
		fakecmd.KillAll()
	}
	rec.w.Flush()
	f.Close()
	fmt.Printf("{\"records\":%d,\"histories\":%d}\n", rec.n, rec.n)
}
