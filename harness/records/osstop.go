package records

import (
	"bufio"
	"flag"
	"fmt"
	"math/rand"
	"os"
	"os/exec"
	"path/filepath"
	"strconv"
	"strings"
	"sync"
	"syscall"
	"time"

	"github.com/f1bonacc1/process-compose/src/app"
	"github.com/f1bonacc1/process-compose/src/command"
	"github.com/f1bonacc1/process-compose/src/types"
)

// One OS-level stop scenario: a real process tree whose members trap every signal and append
// "<member> <signal number> <unix ns>" to a file; the harness observes deaths by polling /proc.
type osCase struct {
	id         string
	trigger    string // stop | shutdown | SIGTERM | SIGINT | SIGHUP (to the binary)
	signal     int    // configured shutdown.signal (0: unset)
	parentOnly bool
	timeout    int
	command    string   // none | ok | fails | hangs
	tree       []string // member names: parent [, child [, grandchild]]
	ignores    map[string]bool
	repeat     bool // binary triggers: the OS signal is sent a second time while the shutdown is still in progress
}

var trapSigs = []int{1, 2, 3, 10, 12, 14, 15, 31}

func effSignal(s int) int {
	if s >= 1 && s <= 31 {
		return s
	}
	return 15
}

// memberScript builds the bash script of member k of the tree (it spawns member k+1 as a background child).
func memberScript(c osCase, k int, file string) string {
	name := c.tree[k]
	var b strings.Builder
	fmt.Fprintf(&b, "echo \"%s pid $$ $(date +%%s%%N)\" >> %s; ", name, file)
	for _, s := range trapSigs {
		action := "exit 0"
		if c.ignores[name] && s == effSignal(c.signal) {
			action = "true" // logs the signal but keeps running: needs SIGKILL
		}
		fmt.Fprintf(&b, "trap 'echo \"%s %d $(date +%%s%%N)\" >> %s; %s' %d; ", name, s, file, action, s)
	}
	if k+1 < len(c.tree) {
		child := memberScript(c, k+1, file)
		fmt.Fprintf(&b, "bash -c %s & ", shellQuote(child))
	}
	b.WriteString("while true; do sleep 0.02 & wait $!; done")
	return b.String()
}

func shellQuote(s string) string { return "'" + strings.ReplaceAll(s, "'", `'\''`) + "'" }

func pidAlive(pid int) bool {
	if pid <= 0 {
		return false
	}
	b, err := os.ReadFile(fmt.Sprintf("/proc/%d/stat", pid))
	if err != nil {
		return false
	}
	// a zombie is dead for our purposes
	f := strings.Fields(string(b))
	for i, x := range f {
		if strings.HasSuffix(x, ")") && i+1 < len(f) {
			return f[i+1] != "Z"
		}
	}
	return true
}

func readFileLines(path string) []string {
	b, err := os.ReadFile(path)
	if err != nil {
		return nil
	}
	return strings.Split(strings.TrimSpace(string(b)), "\n")
}

func runOsCase(rec *recWriter, dir string, pcbin string, c osCase) {
	cdir := filepath.Join(dir, c.id)
	_ = os.MkdirAll(filepath.Join(cdir, "wd"), 0o755)
	file := filepath.Join(cdir, "events")
	wd := filepath.Join(cdir, "wd")
	script := memberScript(c, 0, file)
	shut := types.ShutDownParams{Signal: c.signal, ParentOnly: c.parentOnly, ShutDownTimeout: c.timeout}
	cmdText := ""
	switch c.command {
	case "ok": // gracefully stops the process itself (USR1 makes every member exit)
		cmdText = fmt.Sprintf("echo \"cmd ran $PC_PROC_NAME $(pwd) $(date +%%s%%N)\" >> %s; for p in $(grep ' pid ' %s | cut -d' ' -f3); do kill -USR1 $p 2>/dev/null; done; exit 0", file, file)
	case "fails":
		cmdText = fmt.Sprintf("echo \"cmd ran $PC_PROC_NAME $(pwd) $(date +%%s%%N)\" >> %s; exit 3", file)
	case "hangs":
		cmdText = fmt.Sprintf("echo \"cmd ran $PC_PROC_NAME $(pwd) $(date +%%s%%N)\" >> %s; sleep 30; true", file) // compound: the shell keeps a child while it hangs
	}
	shut.ShutDownCommand = cmdText
	start := time.Now()
	ms := func(t time.Time) int { return int(t.Sub(start) / time.Millisecond) }
	nsToMs := func(ns int64) int { return int((ns - start.UnixNano()) / 1e6) }
	var stopFn func() bool // returns true if it returned (not stuck)
	var cleanup func()
	if strings.HasPrefix(c.trigger, "SIG") {
		// the real binary, signalled from outside
		var y strings.Builder
		y.WriteString("version: \"0.5\"\ndisable_env_expansion: true\nprocesses:\n  victim:\n")
		fmt.Fprintf(&y, "    command: %s\n    working_dir: %s\n", yq(script), yq(wd))
		fmt.Fprintf(&y, "    environment:\n      - %s\n", yq("VERIF_MARK="+c.id))
		y.WriteString("    shutdown:\n")
		if c.signal != 0 {
			fmt.Fprintf(&y, "      signal: %d\n", c.signal)
		}
		if c.parentOnly {
			y.WriteString("      parent_only: true\n")
		}
		if c.timeout != 0 {
			fmt.Fprintf(&y, "      timeout_seconds: %d\n", c.timeout)
		}
		if cmdText != "" {
			fmt.Fprintf(&y, "      command: %s\n", yq(cmdText))
		}
		if c.signal == 0 && !c.parentOnly && c.timeout == 0 && cmdText == "" {
			y.WriteString("      timeout_seconds: 0\n")
		}
		cfg := filepath.Join(cdir, "pc.yaml")
		_ = os.WriteFile(cfg, []byte(y.String()), 0o644)
		pc := exec.Command(pcbin, "-t=false", "--no-server", "-f", cfg, "-L", filepath.Join(cdir, "pc.log"))
		pc.Env = append(os.Environ(), "PC_DISABLE_TUI=1")
		pc.SysProcAttr = &syscall.SysProcAttr{Setpgid: true}
		if err := pc.Start(); err != nil {
			return
		}
		exited := make(chan struct{})
		go func() { _ = pc.Wait(); close(exited) }()
		sig := map[string]syscall.Signal{"SIGTERM": syscall.SIGTERM, "SIGINT": syscall.SIGINT, "SIGHUP": syscall.SIGHUP}[c.trigger]
		stopFn = func() bool {
			_ = pc.Process.Signal(sig)
			if c.repeat {
				time.Sleep(300 * time.Millisecond)
				_ = pc.Process.Signal(sig)
			}
			select {
			case <-exited:
				return true
			case <-time.After(time.Duration(c.timeout)*time.Second + 14*time.Second):
				return false
			}
		}
		cleanup = func() { _ = pc.Process.Kill() }
	} else {
		pcfg := types.ProcessConfig{Name: "victim", ReplicaName: "victim", Executable: "bash", Args: []string{"-c", script}, Command: script,
			WorkingDir: wd, Environment: types.Environment{"VERIF_MARK=" + c.id}, ShutDownParams: shut, Namespace: "default", Replicas: 1, LaunchTimeout: 5}
		project := &types.Project{Version: "0.5", LogLength: 100, ShellConfig: command.DefaultShellConfig(), Processes: types.Processes{"victim": pcfg}}
		runner, err := app.NewProjectRunner((&app.ProjectOpts{}).WithProject(project).WithIsTuiOn(true))
		if err != nil {
			return
		}
		runDone := make(chan struct{})
		go func() { _ = runner.Run(); close(runDone) }()
		stopFn = func() bool {
			ret := make(chan struct{})
			go func() {
				if c.trigger == "stop" {
					_ = runner.StopProcess("victim")
				} else {
					_ = runner.ShutDownProject()
				}
				close(ret)
			}()
			select {
			case <-ret:
				return true
			case <-time.After(time.Duration(c.timeout)*time.Second + 14*time.Second):
				return false
			}
		}
		cleanup = func() {
			go func() { _ = runner.ShutDownProject() }()
			select {
			case <-runDone:
			case <-time.After(2 * time.Second):
			}
		}
	}
	// wait until every member has reported its pid
	pids := map[string]int{}
	for k := 0; k < 400 && len(pids) < len(c.tree); k++ {
		for _, l := range readFileLines(file) {
			f := strings.Fields(l)
			if len(f) == 4 && f[1] == "pid" {
				p, _ := strconv.Atoi(f[2])
				pids[f[0]] = p
			}
		}
		time.Sleep(10 * time.Millisecond)
	}
	time.Sleep(30 * time.Millisecond)
	// death observers
	var mu sync.Mutex
	died := map[string]int{}
	stopPoll := make(chan struct{})
	var pwg sync.WaitGroup
	for name, pid := range pids {
		pwg.Add(1)
		go func(name string, pid int) {
			defer pwg.Done()
			for {
				if !pidAlive(pid) {
					mu.Lock()
					died[name] = ms(time.Now())
					mu.Unlock()
					return
				}
				select {
				case <-stopPoll:
					return
				case <-time.After(3 * time.Millisecond):
				}
			}
		}(name, pid)
	}
	tStop := ms(time.Now())
	returned := stopFn()
	tReturn := ms(time.Now())
	aliveAtReturn := map[string]bool{}
	for name, pid := range pids {
		aliveAtReturn[name] = pidAlive(pid)
	}
	time.Sleep(250 * time.Millisecond)
	close(stopPoll)
	pwg.Wait()
	members := []map[string]any{}
	cmdRec := map[string]any{"ran": false, "procName": "", "pwd": "", "t": 0}
	got := map[string][][]int{}
	for _, l := range readFileLines(file) {
		f := strings.Fields(l)
		if len(f) == 5 && f[0] == "cmd" {
			ns, _ := strconv.ParseInt(f[4], 10, 64)
			cmdRec = map[string]any{"ran": true, "procName": f[2], "pwd": f[3], "t": nsToMs(ns)}
			continue
		}
		if len(f) == 3 {
			sg, _ := strconv.Atoi(f[1])
			ns, _ := strconv.ParseInt(f[2], 10, 64)
			got[f[0]] = append(got[f[0]], []int{sg, nsToMs(ns)})
		}
	}
	for _, name := range c.tree {
		g := got[name]
		if g == nil {
			g = [][]int{}
		}
		d, isDead := died[name]
		if !isDead {
			d = -1
		}
		members = append(members, map[string]any{"name": name, "pid": pids[name], "got": g, "diedAt": d, "aliveAtReturn": aliveAtReturn[name],
			"aliveAtEnd": pidAlive(pids[name]), "ignores": c.ignores[name], "started": pids[name] != 0})
	}
	rec.put(map[string]any{"kind": "osstop", "id": c.id, "trigger": c.trigger, "signal": c.signal, "eff": effSignal(c.signal),
		"parentOnly": c.parentOnly, "timeout": c.timeout, "command": c.command, "members": members, "tStop": tStop, "tReturn": tReturn,
		"returned": returned, "cmd": cmdRec, "wd": wd, "procName": "victim", "repeat": c.repeat})
	// clean up whatever the configuration could not reach
	cleanup()
	for _, pid := range pids {
		if pidAlive(pid) {
			_ = syscall.Kill(pid, syscall.SIGKILL)
		}
	}
}

// OsstopMain: pcharness osstop -seed S -tier T -pcbin path -out file
func OsstopMain(args []string) {
	fs := flag.NewFlagSet("osstop", flag.ExitOnError)
	seed := fs.Int64("seed", 1, "seed")
	tier := fs.String("tier", "quick", "tier")
	pcbin := fs.String("pcbin", "", "process-compose binary (for the OS-signal triggers)")
	out := fs.String("out", "osstop.ndjson", "output")
	_ = fs.Parse(args)
	f, _ := os.Create(*out)
	rec := &recWriter{w: bufio.NewWriterSize(f, 1<<20)}
	dir, _ := os.MkdirTemp("", "pcos")
	defer os.RemoveAll(dir)
	app.VerifCommanderFn, app.VerifTraceFn, app.VerifGateFn, app.VerifBackoffFn = nil, nil, nil, nil
	r := rand.New(rand.NewSource(*seed))
	n := 48
	if *tier == "thorough" {
		n = 400
	}
	cases := []osCase{}
	signals := []int{0, 1, 2, 10, 15, 31, 32, -1}
	triggers := []string{"stop", "shutdown", "stop", "shutdown", "SIGTERM", "SIGINT", "SIGHUP"}
	for k := 0; k < n; k++ {
		c := osCase{id: fmt.Sprintf("os%d_%d", *seed, k), signal: signals[k%len(signals)], parentOnly: r.Intn(4) == 0,
			timeout: []int{0, 0, 1, 2}[r.Intn(4)], command: "none", ignores: map[string]bool{}}
		c.trigger = triggers[r.Intn(len(triggers))]
		if *pcbin == "" && strings.HasPrefix(c.trigger, "SIG") {
			c.trigger = "shutdown"
		}
		switch r.Intn(4) {
		case 0:
			c.tree = []string{"parent"}
		case 1:
			c.tree = []string{"parent", "child"}
		default:
			c.tree = []string{"parent", "child", "grandchild"}
		}
		if effSignal(c.signal) == 2 {
			// a non-interactive bash starts its background children with SIGINT ignored: they cannot report it
			c.tree = []string{"parent"}
		}
		if r.Intn(3) == 0 { // a member that ignores the configured signal
			who := c.tree[r.Intn(len(c.tree))]
			c.ignores[who] = true
			if c.timeout == 0 {
				c.timeout = 1 // otherwise nothing can ever stop it: outside what any supervisor can do
			}
		}
		c.repeat = strings.HasPrefix(c.trigger, "SIG") && r.Intn(2) == 0
		if r.Intn(4) == 0 {
			c.command = []string{"ok", "fails", "hangs"}[r.Intn(3)]
			if c.command == "hangs" {
				c.timeout = 1
			}
			c.ignores = map[string]bool{}
		}
		cases = append(cases, c)
	}
	// scenarios are independent (separate runners / binaries): run 8 at a time
	sem := make(chan struct{}, 8)
	var wg sync.WaitGroup
	for _, c := range cases {
		wg.Add(1)
		sem <- struct{}{}
		go func(c osCase) {
			defer wg.Done()
			defer func() { <-sem }()
			runOsCase(rec, dir, *pcbin, c)
		}(c)
	}
	wg.Wait()
	rec.w.Flush()
	f.Close()
	fmt.Printf("{\"records\":%d,\"histories\":%d}\n", rec.n, len(cases))
}
