package records

import (
	"bufio"
	"flag"
	"fmt"
	"math/rand"
	"os"
	"sort"
	"sync"
	"time"

	"github.com/f1bonacc1/process-compose/src/admitter"
	"github.com/f1bonacc1/process-compose/src/app"
	"github.com/f1bonacc1/process-compose/src/command"
	"github.com/f1bonacc1/process-compose/src/loader"
	"github.com/f1bonacc1/process-compose/src/types"

	"verifharness/fakecmd"
)

var planStuck int

var planNames = []string{"p0", "p1", "p2", "p3", "p4", "p5", "p6", "p7"}

type planCase struct {
	n          int
	edges      [][2]int // p depends on k; k == -1: undefined process "ghost"
	disabled   map[int]bool
	foreground map[int]bool
	replicas   map[int]int
	requested  []int
	noDeps     bool
	ns         map[int]string // namespace per node ("" = default)
	enabledNS  []string       // --namespace selection (empty: all)
}

// runPlan loads the generated configuration, builds a runner, asks for the order and lets the project
// run with commands that exit at once; it records what the real code did.
func runPlan(rec *recWriter, dir string, id string, pc planCase, repeat int) {
	f := AFile{}
	for i := 0; i < pc.n; i++ {
		p := AProc{Name: planNames[i], Opts: []KV{{"command", "run " + planNames[i]}}}
		for _, e := range pc.edges {
			if e[0] == i {
				k := "ghost"
				if e[1] >= 0 {
					k = planNames[e[1]]
				}
				p.Deps = append(p.Deps, KV{k, "process_completed"})
			}
		}
		p.Disabled = pc.disabled[i]
		p.Foreground = pc.foreground[i]
		p.Replicas = pc.replicas[i]
		if pc.ns[i] != "" {
			p.Extra = append(p.Extra, "    namespace: "+pc.ns[i])
		}
		f.Procs = append(f.Procs, p)
	}
	path := writeFile(dir, "plan.yaml", f.Render())
	edges := [][]string{}
	for _, e := range pc.edges {
		k := "ghost"
		if e[1] >= 0 {
			k = planNames[e[1]]
		}
		edges = append(edges, []string{planNames[e[0]], k})
	}
	nodes := []string{}
	dis, fg := []string{}, []string{}
	reps := [][]any{}
	for i := 0; i < pc.n; i++ {
		nodes = append(nodes, planNames[i])
		if pc.disabled[i] {
			dis = append(dis, planNames[i])
		}
		if pc.foreground[i] {
			fg = append(fg, planNames[i])
		}
		r := pc.replicas[i]
		if r == 0 {
			r = 1
		}
		reps = append(reps, []any{planNames[i], r})
	}
	req := []string{}
	for _, i := range pc.requested {
		req = append(req, planNames[i])
	}
	// processes outside the selected namespaces
	outside := []string{}
	if len(pc.enabledNS) > 0 {
		for i := 0; i < pc.n; i++ {
			nsi := pc.ns[i]
			if nsi == "" {
				nsi = "default"
			}
			in := false
			for _, e := range pc.enabledNS {
				in = in || e == nsi
			}
			if !in {
				outside = append(outside, planNames[i])
			}
		}
	}
	for rep := 0; rep < repeat; rep++ {
		m := map[string]any{"kind": "plan", "id": fmt.Sprintf("%s-r%d", id, rep), "nodes": nodes, "edges": edges,
			"disabled": dis, "foreground": fg, "replicas": reps, "requested": req, "noDeps": pc.noDeps,
			"loadErr": false, "runnerErr": false, "runStuck": false, "runSkipped": false, "order": []string{}, "disabledAfter": []string{}, "launched": []string{}, "base": [][]string{},
			"outside": outside, "launchedBase": []string{}}
		lopts := &loader.LoaderOptions{FileNames: []string{path}, IsInternalLoader: true}
		if len(pc.enabledNS) > 0 {
			lopts.AddAdmitter(&admitter.NamespaceAdmitter{EnabledNamespaces: pc.enabledNS})
		}
		project, err := loader.Load(lopts)
		if err != nil {
			m["loadErr"] = true
			m["err"] = err.Error()
			rec.put(m)
			continue
		}
		base := [][]string{}
		for name, p := range project.Processes {
			base = append(base, []string{name, p.Name})
		}
		sort.Slice(base, func(a, b int) bool { return base[a][0] < base[b][0] })
		m["base"] = base
		runner, err := app.NewProjectRunner((&app.ProjectOpts{}).WithProject(project).WithProcessesToRun(req).WithNoDeps(pc.noDeps).WithIsTuiOn(true))
		if err != nil {
			m["runnerErr"] = true
			m["err"] = err.Error()
			rec.put(m)
			continue
		}
		order, oerr := runner.GetDependenciesOrderNames()
		if oerr != nil {
			m["orderErr"] = oerr.Error()
		}
		if order == nil {
			order = []string{}
		}
		m["order"] = order
		if planStuck >= 5 {
			// Run() kept hanging on earlier records: do not spend the budget on more of the same
			m["runSkipped"] = true
			rec.put(m)
			continue
		}
		// run: every launched command exits 0 at once
		var mu sync.Mutex
		launched := map[string]bool{}
		launchedBase := map[string]bool{}
		app.VerifReset()
		fakecmd.Reset()
		app.VerifTraceFn = nil
		app.VerifGateFn = nil
		app.VerifBackoffFn = nil
		app.VerifCommanderFn = func(info app.VerifLaunchInfo) command.Commander {
			mu.Lock()
			launched[info.Proc] = true
			launchedBase[info.Conf.Name] = true
			mu.Unlock()
			return fakecmd.New(info.Proc, info.Inst, info.Attempt, nil, fakecmd.Behaviour{ExitMode: "auto", AfterTicks: 0, Code: 0})
		}
		done := make(chan struct{})
		go func() { _ = runner.Run(); close(done) }()
		select {
		case <-done:
		case <-time.After(2 * time.Second):
			// Run() does not return (e.g. an accepted cycle): record it and move on, whatever a shutdown does
			m["runStuck"] = true
			planStuck++
			go func() { _ = runner.ShutDownProject() }()
			select {
			case <-done:
			case <-time.After(2 * time.Second):
			}
		}
		ls := []string{}
		mu.Lock()
		for k := range launched {
			ls = append(ls, k)
		}
		mu.Unlock()
		sort.Strings(ls)
		m["launched"] = ls
		lb := []string{}
		mu.Lock()
		for k := range launchedBase {
			lb = append(lb, k)
		}
		mu.Unlock()
		sort.Strings(lb)
		m["launchedBase"] = lb
		da := []string{}
		if st, err := runner.GetProcessesState(); err == nil {
			for _, s := range st.States {
				if s.Status == types.ProcessStateDisabled {
					da = append(da, s.Name)
				}
			}
		}
		sort.Strings(da)
		m["disabledAfter"] = da
		rec.put(m)
	}
}

func allEdgeSets(n int, selfLoops bool) [][][2]int {
	var cand [][2]int
	for p := 0; p < n; p++ {
		for k := 0; k < n; k++ {
			if p != k || selfLoops {
				cand = append(cand, [2]int{p, k})
			}
		}
	}
	out := [][][2]int{}
	for mask := 0; mask < 1<<len(cand); mask++ {
		var es [][2]int
		for b := range cand {
			if mask&(1<<b) != 0 {
				es = append(es, cand[b])
			}
		}
		out = append(out, es)
	}
	return out
}

// PlanMain: pcharness plan -seed S -tier quick|thorough -out file
func PlanMain(args []string) {
	fs := flag.NewFlagSet("plan", flag.ExitOnError)
	seed := fs.Int64("seed", 1, "seed")
	tier := fs.String("tier", "quick", "tier")
	out := fs.String("out", "plan.ndjson", "output")
	_ = fs.Parse(args)
	f, err := os.Create(*out)
	if err != nil {
		fmt.Fprintln(os.Stderr, err)
		os.Exit(2)
	}
	rec := &recWriter{w: bufio.NewWriterSize(f, 1<<20)}
	dir, _ := os.MkdirTemp("", "pcplan")
	defer os.RemoveAll(dir)
	r := rand.New(rand.NewSource(*seed))
	cases := 0
	// (1) exhaustive: every digraph (self loops included) on 1..3 nodes, loaded 3 times (map iteration order)
	for n := 1; n <= 3; n++ {
		for gi, es := range allEdgeSets(n, true) {
			runPlan(rec, dir, fmt.Sprintf("g%d-%d", n, gi), planCase{n: n, edges: es}, 3)
			cases++
		}
	}
	// (2) every loop-free digraph on 4 nodes (thorough) or a seeded sample (quick)
	four := allEdgeSets(4, false)
	for gi, es := range four {
		if *tier != "thorough" && r.Intn(16) != 0 {
			continue
		}
		runPlan(rec, dir, fmt.Sprintf("g4-%d", gi), planCase{n: 4, edges: es}, 1)
		cases++
	}
	// (3) dangling dependencies
	for n := 1; n <= 3; n++ {
		for p := 0; p < n; p++ {
			es := [][2]int{{p, -1}}
			if n > 1 {
				es = append(es, [2]int{(p + 1) % n, p})
			}
			runPlan(rec, dir, fmt.Sprintf("dangling%d-%d", n, p), planCase{n: n, edges: es}, 1)
			cases++
			// the process that names the undefined dependency is disabled / foreground: still rejected
			runPlan(rec, dir, fmt.Sprintf("dangling%d-%d-dis", n, p), planCase{n: n, edges: es, disabled: map[int]bool{p: true}}, 1)
			runPlan(rec, dir, fmt.Sprintf("dangling%d-%d-fg", n, p), planCase{n: n, edges: es, foreground: map[int]bool{p: true}}, 1)
			cases += 2
		}
	}
	// (4) selection: acyclic graphs on 3..4 nodes x every non-empty requested subset x noDeps x markings
	sel := 0
	for _, n := range []int{3, 4} {
		for gi, es := range allEdgeSets(n, false) {
			if !acyclic(n, es) {
				continue
			}
			if n == 4 && r.Intn(12) != 0 && *tier != "thorough" {
				continue
			}
			if n == 4 && *tier == "thorough" && r.Intn(3) != 0 {
				continue
			}
			for mask := 1; mask < 1<<n; mask++ {
				if n == 4 && r.Intn(3) != 0 {
					continue
				}
				var req []int
				for b := 0; b < n; b++ {
					if mask&(1<<b) != 0 {
						req = append(req, b)
					}
				}
				pc := planCase{n: n, edges: es, requested: req, noDeps: r.Intn(3) == 0,
					disabled: map[int]bool{}, foreground: map[int]bool{}, replicas: map[int]int{}}
				if r.Intn(3) == 0 {
					pc.disabled[r.Intn(n)] = true
				}
				if r.Intn(4) == 0 {
					pc.foreground[r.Intn(n)] = true
				}
				if r.Intn(4) == 0 {
					pc.replicas[r.Intn(n)] = 2 + r.Intn(2)
				}
				runPlan(rec, dir, fmt.Sprintf("sel%d-%d-%d", n, gi, mask), pc, 1)
				sel++
				cases++
			}
		}
	}
	// (5) markings without selection + random graphs on 5..8 nodes
	big := 60
	if *tier == "thorough" {
		big = 1500
	}
	for k := 0; k < big; k++ {
		n := 3 + r.Intn(6)
		var es [][2]int
		for p := 0; p < n; p++ {
			for q := 0; q < n; q++ {
				if p != q && r.Intn(100) < 18 {
					if r.Intn(10) < 8 && q > p {
						continue // mostly "backwards" edges: acyclic more often than not
					}
					es = append(es, [2]int{p, q})
				}
			}
		}
		pc := planCase{n: n, edges: es, disabled: map[int]bool{}, foreground: map[int]bool{}, replicas: map[int]int{}}
		if r.Intn(2) == 0 {
			pc.disabled[r.Intn(n)] = true
		}
		if r.Intn(3) == 0 {
			pc.foreground[r.Intn(n)] = true
		}
		if r.Intn(3) == 0 {
			pc.replicas[r.Intn(n)] = 2 + r.Intn(9)
		}
		if r.Intn(3) == 0 {
			pc.requested = []int{r.Intn(n)}
			pc.noDeps = r.Intn(3) == 0
		}
		if r.Intn(3) == 0 {
			// namespaces, with a selection of one or two of them
			pc.ns = map[int]string{}
			for i := 0; i < n; i++ {
				pc.ns[i] = []string{"", "", "blue", "green"}[r.Intn(4)]
			}
			pc.enabledNS = [][]string{{"default"}, {"blue"}, {"blue", "green"}, {"default", "green"}, {"nosuch"}}[r.Intn(5)]
		}
		runPlan(rec, dir, fmt.Sprintf("rnd-%d", k), pc, 1)
		cases++
	}
	rec.w.Flush()
	f.Close()
	fmt.Printf("{\"records\":%d,\"histories\":%d,\"selection_cases\":%d}\n", rec.n, cases, sel)
}

func acyclic(n int, es [][2]int) bool {
	color := make([]int, n)
	var visit func(int) bool
	visit = func(u int) bool {
		color[u] = 1
		for _, e := range es {
			if e[0] == u {
				if color[e[1]] == 1 {
					return false
				}
				if color[e[1]] == 0 && !visit(e[1]) {
					return false
				}
			}
		}
		color[u] = 2
		return true
	}
	for u := 0; u < n; u++ {
		if color[u] == 0 && !visit(u) {
			return false
		}
	}
	return true
}
