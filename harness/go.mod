module verifharness

go 1.22.0

require (
	github.com/f1bonacc1/process-compose v0.0.0
	github.com/gin-gonic/gin v1.10.0
	github.com/rs/zerolog v1.33.0
)

require (
	dario.cat/mergo v1.0.1 // indirect
	github.com/InVisionApp/go-health/v2 v2.1.4 // indirect
	github.com/InVisionApp/go-logger v1.0.1 // indirect
	github.com/KyleBanks/depth v1.2.1 // indirect
	github.com/adrg/xdg v0.5.3 // indirect
	github.com/cakturk/go-netstat v0.0.0-20200220111822-e5b49efee7a5 // indirect
	github.com/creack/pty v1.1.24 // indirect
	github.com/fatih/color v1.18.0 // indirect
	github.com/gabriel-vasile/mimetype v1.4.7 // indirect
	github.com/gdamore/encoding v1.0.1 // indirect
	github.com/gdamore/tcell/v2 v2.7.4 // indirect
	github.com/gin-contrib/sse v0.1.0 // indirect
	github.com/go-openapi/jsonpointer v0.21.0 // indirect
	github.com/go-openapi/jsonreference v0.21.0 // indirect
	github.com/go-openapi/spec v0.21.0 // indirect
	github.com/go-openapi/swag v0.23.0 // indirect
	github.com/go-playground/locales v0.14.1 // indirect
	github.com/go-playground/universal-translator v0.18.1 // indirect
	github.com/go-playground/validator/v10 v10.23.0 // indirect
	github.com/gorilla/websocket v1.5.3 // indirect
	github.com/joho/godotenv v1.5.1 // indirect
	github.com/josharian/intern v1.0.0 // indirect
	github.com/leodido/go-urn v1.4.0 // indirect
	github.com/lucasb-eyer/go-colorful v1.2.0 // indirect
	github.com/mailru/easyjson v0.9.0 // indirect
	github.com/mattn/go-colorable v0.1.13 // indirect
	github.com/mattn/go-isatty v0.0.20 // indirect
	github.com/mattn/go-runewidth v0.0.16 // indirect
	github.com/pelletier/go-toml/v2 v2.2.3 // indirect
	github.com/rivo/tview v0.0.0-20241103174730-c76f7879f592 // indirect
	github.com/rivo/uniseg v0.4.7 // indirect
	github.com/shirou/gopsutil/v4 v4.24.11 // indirect
	github.com/swaggo/files v1.0.1 // indirect
	github.com/swaggo/gin-swagger v1.6.0 // indirect
	github.com/swaggo/swag v1.16.4 // indirect
	github.com/tklauser/go-sysconf v0.3.12 // indirect
	github.com/tklauser/numcpus v0.6.1 // indirect
	github.com/ugorji/go/codec v1.2.12 // indirect
	golang.org/x/crypto v0.31.0 // indirect
	golang.org/x/net v0.33.0 // indirect
	golang.org/x/sys v0.28.0 // indirect
	golang.org/x/term v0.27.0 // indirect
	golang.org/x/text v0.21.0 // indirect
	golang.org/x/tools v0.28.0 // indirect
	google.golang.org/protobuf v1.35.2 // indirect
	gopkg.in/natefinch/lumberjack.v2 v2.2.1 // indirect
	gopkg.in/yaml.v2 v2.4.0 // indirect
	gopkg.in/yaml.v3 v3.0.1 // indirect
)

replace github.com/f1bonacc1/process-compose => /repo

replace github.com/InVisionApp/go-health/v2 => github.com/f1bonacc1/go-health/v2 v2.1.4

replace github.com/cakturk/go-netstat => github.com/f1bonacc1/netstat v0.0.0-20230714090734-adb3fa07cab7
