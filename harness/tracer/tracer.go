// Package tracer records the ndjson event stream of one scenario at a time.
// Events are ordered by a process-wide sequence number taken under one mutex,
// never by wall clock; `t` (monotonic microseconds since scenario start) is
// used only by the two timing properties.
package tracer

import (
	"bytes"
	"encoding/json"
	"reflect"
	"sync"
	"time"
)

type Listener func(ev string, p string, i int64, fields map[string]any)

var (
	mu       sync.Mutex
	active   bool
	seq      int
	start    time.Time
	lines    [][]byte
	lastEvAt time.Time
	counts   map[string]int
	listener Listener
)

// Begin starts recording a new scenario.
func Begin(l Listener) {
	mu.Lock()
	defer mu.Unlock()
	active = true
	seq = 0
	start = time.Now()
	lastEvAt = start
	lines = nil
	counts = map[string]int{}
	listener = l
}

// End stops recording and returns the recorded lines.
func End() [][]byte {
	mu.Lock()
	defer mu.Unlock()
	active = false
	listener = nil
	out := lines
	lines = nil
	return out
}

func NowUs() int64 { return int64(time.Since(start) / time.Microsecond) }

// SinceLast returns the time since the last recorded event.
func SinceLast() time.Duration {
	mu.Lock()
	defer mu.Unlock()
	return time.Since(lastEvAt)
}

func Count(ev string) int {
	mu.Lock()
	defer mu.Unlock()
	return counts[ev]
}

// Emit records one event. kv are alternating key, value pairs.
func Emit(ev string, p string, i int64, kv ...any) {
	mu.Lock()
	if !active {
		mu.Unlock()
		return
	}
	seq++
	m := map[string]any{"ev": ev, "seq": seq, "t": int64(time.Since(start) / time.Microsecond)}
	if p != "" || i != 0 {
		m["p"] = p
		m["i"] = i
	}
	for k := 0; k+1 < len(kv); k += 2 {
		v := kv[k+1]
		if rv := reflect.ValueOf(v); rv.IsValid() && rv.Kind() == reflect.Slice && rv.IsNil() {
			v = []any{}
		}
		m[kv[k].(string)] = v
	}
	var b bytes.Buffer
	enc := json.NewEncoder(&b)
	enc.SetEscapeHTML(false)
	_ = enc.Encode(m)
	lines = append(lines, bytes.TrimRight(b.Bytes(), "\n"))
	lastEvAt = time.Now()
	counts[ev]++
	l := listener
	mu.Unlock()
	if l != nil {
		l(ev, p, i, m)
	}
}
