package lifecycle

import (
	"encoding/json"
	"errors"
	"fmt"
	"math/rand"
	"os"
	"runtime"
	"sort"
	"strings"
	"sync"
	"sync/atomic"
	"time"

	"github.com/f1bonacc1/process-compose/src/app"
	"github.com/f1bonacc1/process-compose/src/command"
	"github.com/f1bonacc1/process-compose/src/health"
	"github.com/f1bonacc1/process-compose/src/types"

	"verifharness/fakecmd"
	"verifharness/tracer"
)

const (
	quietBeforeStuck = 1000 * time.Millisecond // generous: the machine may be heavily loaded
	defaultHoldMs    = 60
)

// Result of one scenario run.
type Result struct {
	Lines    [][]byte
	Dirty    bool // goroutines of this scenario may still be running: restart the worker
	Stuck    string
	GateHits map[string]int
	HeldOK   int // gate-triggered steps whose hold condition was met
	HeldTO   int // ... that timed out (unsteerable)
	StepsRun int
}

type stepState struct {
	Step
	fired bool
}

type waiter struct {
	ev, p string
	ch    chan struct{}
	done  bool
}

type director struct {
	sc         *Scenario
	runner     *app.ProjectRunner
	mu         sync.Mutex
	rng        *rand.Rand
	steps      []*stepState
	evCount    map[string]int
	gateCount  map[string]int
	gateHits   map[string]int
	waiters    []*waiter
	fails      map[string]int // consecutive probe failures per process and probe kind
	probeEpoch map[string]string
	probeMu    sync.Mutex
	waiting    map[int64]string // instance -> condition it is currently blocked on
	apiSeq     atomic.Int64
	inflight   atomic.Int64
	opsN       atomic.Int64 // operations (steps) in flight; a WaitGroup would be reused while being waited for
	heldOK     int
	heldTO     int
	stepsRun   int
	stopping   atomic.Bool
	panicked   atomic.Bool
}

// panicSite returns the innermost process-compose function on the panicking stack.
func panicSite() string {
	pcs := make([]uintptr, 40)
	n := runtime.Callers(3, pcs)
	frames := runtime.CallersFrames(pcs[:n])
	for {
		fr, more := frames.Next()
		if strings.Contains(fr.Function, "process-compose/src/") {
			return fr.Function[strings.LastIndex(fr.Function, "/")+1:]
		}
		if !more {
			break
		}
	}
	return "unknown"
}

// BuildProject turns the abstract configuration into a types.Project.
func BuildProject(sc *Scenario) *types.Project {
	procs := types.Processes{}
	for _, ps := range sc.Cfg.Procs {
		pc := types.ProcessConfig{
			Name:        ps.Name,
			ReplicaName: ps.Name,
			Command:     "fake " + ps.Name,
			Executable:  "fake",
			Args:        []string{ps.Name},
			Namespace:   "default",
			Replicas:    1,
			Disabled:    ps.Deferred,
			IsDaemon:    ps.Daemon,
			RestartPolicy: types.RestartPolicyConfig{
				Restart:        ps.Policy,
				BackoffSeconds: ps.Backoff,
				MaxRestarts:    ps.MaxRestarts,
				ExitOnEnd:      ps.ExitOnEnd,
				ExitOnSkipped:  ps.ExitOnSkipped,
			},
			ShutDownParams: types.ShutDownParams{
				ShutDownTimeout: ps.ShutdownTimeout,
				Signal:          ps.Signal,
			},
			LaunchTimeout: 1,
			DependsOn:     types.DependsOnConfig{},
		}
		if ps.BadWorkdir {
			pc.WorkingDir = "/nonexistent/verif/dir"
		}
		if ps.ShutdownCmd {
			// daemons are stopped through their shutdown command (the launcher is gone); it runs for real
			pc.ShutDownParams.ShutDownCommand = "true"
		}
		if ps.HasReadyLine {
			pc.ReadyLogLine = "READY"
		}
		if ps.HasReadyProbe {
			pc.ReadinessProbe = &health.Probe{
				Exec:             &health.ExecProbe{Command: "true"},
				InitialDelay:     3600, // the real checker never starts; completions are injected
				PeriodSeconds:    1,
				FailureThreshold: ps.Threshold,
			}
		}
		if ps.HasLiveProbe {
			pc.LivenessProbe = &health.Probe{
				Exec:             &health.ExecProbe{Command: "true"},
				InitialDelay:     3600,
				PeriodSeconds:    1,
				FailureThreshold: ps.Threshold,
			}
		}
		procs[ps.Name] = pc
	}
	for _, e := range sc.Cfg.Edges {
		pc := procs[e.P]
		pc.DependsOn[e.K] = types.ProcessDependency{Condition: e.Cond}
		procs[e.P] = pc
	}
	return &types.Project{
		Version:     "0.5",
		LogLength:   200,
		Processes:   procs,
		ShellConfig: command.DefaultShellConfig(),
	}
}

func (d *director) anyDaemonUp() bool {
	for _, ps := range d.sc.Cfg.Procs {
		if ps.Daemon && d.daemonUp(ps.Name) {
			return true
		}
	}
	return false
}

// daemonUp: the process is a daemon whose launcher has gone and which is reported Launching / Launched
func (d *director) daemonUp(proc string) bool {
	for _, ps := range d.sc.Cfg.Procs {
		if ps.Name == proc && ps.Daemon {
			if st, err := d.runner.GetProcessState(proc); err == nil {
				return st.Status == types.ProcessStateLaunched || st.Status == types.ProcessStateLaunching
			}
		}
	}
	return false
}

func (d *director) behaviour(proc string, attempt int) fakecmd.Behaviour {
	bs := d.sc.Scripts[proc]
	if len(bs) == 0 {
		return fakecmd.Behaviour{ExitMode: "auto", AfterTicks: 1}
	}
	if attempt-1 < len(bs) {
		return bs[attempt-1]
	}
	return bs[len(bs)-1]
}

func (d *director) perturbDelay() time.Duration {
	if d.sc.Perturb == 0 {
		return 0
	}
	r := d.rng.Intn(100)
	switch d.sc.Perturb {
	case 1:
		switch {
		case r < 80:
			return 0
		case r < 92:
			return 200 * time.Microsecond
		case r < 98:
			return time.Millisecond
		default:
			return 3 * time.Millisecond
		}
	default:
		switch {
		case r < 50:
			return 0
		case r < 75:
			return 300 * time.Microsecond
		case r < 92:
			return 1500 * time.Microsecond
		default:
			return 5 * time.Millisecond
		}
	}
}

func nth(w When) int {
	if w.Nth <= 0 {
		return 1
	}
	return w.Nth
}

// gate is called by the code at every check-then-act window.
func (d *director) gate(proc string, inst int64, point string) {
	if d.stopping.Load() {
		return
	}
	d.mu.Lock()
	d.gateHits[point]++
	key := point + "|" + proc
	d.gateCount[key]++
	n := d.gateCount[key]
	var fire []*stepState
	for _, st := range d.steps {
		if !st.fired && st.When.Gate == point && st.When.P == proc && nth(st.When) == n {
			st.fired = true
			fire = append(fire, st)
		}
	}
	delay := d.perturbDelay()
	d.mu.Unlock()
	for _, st := range fire {
		d.fireHeld(st)
	}
	if delay > 0 {
		time.Sleep(delay)
	}
}

func (d *director) addWaiter(ev, p string) *waiter {
	w := &waiter{ev: ev, p: p, ch: make(chan struct{})}
	d.mu.Lock()
	d.waiters = append(d.waiters, w)
	d.mu.Unlock()
	return w
}

// fireHeld runs a gate-triggered step while the calling goroutine of the code is held at the gate.
func (d *director) fireHeld(st *stepState) {
	hold := st.HoldMs
	if hold <= 0 {
		hold = defaultHoldMs
	}
	var w *waiter
	if st.HoldUntil == "event" {
		w = d.addWaiter(st.UntilEv, st.UntilP)
	}
	done := make(chan struct{})
	d.launchOp(st.Do, done)
	timer := time.NewTimer(time.Duration(hold) * time.Millisecond)
	defer timer.Stop()
	ok := true
	switch st.HoldUntil {
	case "opDone":
		select {
		case <-done:
		case <-timer.C:
			ok = false
		}
	case "event":
		select {
		case <-w.ch:
		case <-timer.C:
			ok = false
		}
	default:
	}
	d.mu.Lock()
	if ok {
		d.heldOK++
	} else {
		d.heldTO++
	}
	d.mu.Unlock()
}

// onEvent is the tracer listener: it must never block (it runs under the code's locks).
func (d *director) onEvent(ev string, p string, i int64, f map[string]any) {
	d.mu.Lock()
	key := ev + "|" + p
	d.evCount[key]++
	n := d.evCount[key]
	switch ev {
	case "DepResolved":
		if ki, _ := f["ki"].(int64); ki != 0 {
			d.waiting[i], _ = f["cond"].(string)
		}
	case "DepSatisfied", "DepUnsat", "Unreg":
		delete(d.waiting, i)
	}
	for _, w := range d.waiters {
		if !w.done && w.ev == ev && (w.p == "" || w.p == p) {
			w.done = true
			close(w.ch)
		}
	}
	var fire []*stepState
	for _, st := range d.steps {
		if !st.fired && st.When.Event == ev && st.When.Event != "" && (st.When.P == p || st.When.P == "") && nth(st.When) == n {
			st.fired = true
			fire = append(fire, st)
		}
	}
	d.mu.Unlock()
	for _, st := range fire {
		st := st
		d.inflight.Add(1)
		d.opsN.Add(1)
		go func() {
			defer d.opsN.Add(-1)
			defer d.inflight.Add(-1)
			if st.DelayTick > 0 {
				time.Sleep(time.Duration(st.DelayTick) * fakecmd.Tick)
			}
			d.doOp(st.Do)
		}()
	}
}

func (d *director) launchOp(op Op, done chan struct{}) {
	d.inflight.Add(1)
	d.opsN.Add(1)
	go func() {
		defer d.opsN.Add(-1)
		defer d.inflight.Add(-1)
		d.doOp(op)
		if done != nil {
			close(done)
		}
	}()
}

// blocked lists the dependency conditions unfinished instances are waiting on (for Stuck events).
func (d *director) blocked() []string {
	d.mu.Lock()
	defer d.mu.Unlock()
	set := map[string]bool{}
	for _, c := range d.waiting {
		set[c] = true
	}
	out := []string{}
	for c := range set {
		out = append(out, c)
	}
	sort.Strings(out)
	return out
}

func errStr(err error) string {
	if err == nil {
		return ""
	}
	return err.Error()
}

// doOp performs one API call / environment action and records ApiBegin / ApiEnd around it.
func (d *director) doOp(op Op) {
	if d.stopping.Load() && op.Kind != "shutdown" {
		return
	}
	d.mu.Lock()
	d.stepsRun++
	d.mu.Unlock()
	id := d.apiSeq.Add(1)
	r := d.runner
	defer func() {
		// a panic inside an API call would kill the supervisor: record it (C20) and keep the shard alive
		if rec := recover(); rec != nil {
			tracer.Emit("Panic", "", 0, "op", op.Kind, "p", op.P, "msg", fmt.Sprint(rec), "site", panicSite())
			tracer.Emit("ApiEnd", "", 0, "id", id, "ok", false, "err", "panic")
			d.panicked.Store(true)
		}
	}()
	switch op.Kind {
	case "stop":
		tracer.Emit("ApiBegin", "", 0, "id", id, "op", "stop", "p", op.P)
		err := r.StopProcess(op.P)
		tracer.Emit("ApiEnd", "", 0, "id", id, "ok", err == nil, "err", errStr(err))
	case "start":
		tracer.Emit("ApiBegin", "", 0, "id", id, "op", "start", "p", op.P)
		err := r.StartProcess(op.P)
		tracer.Emit("ApiEnd", "", 0, "id", id, "ok", err == nil, "err", errStr(err))
	case "restart":
		tracer.Emit("ApiBegin", "", 0, "id", id, "op", "restart", "p", op.P)
		err := r.RestartProcess(op.P)
		tracer.Emit("ApiEnd", "", 0, "id", id, "ok", err == nil, "err", errStr(err))
	case "shutdown":
		tracer.Emit("ApiBegin", "", 0, "id", id, "op", "shutdown", "p", "")
		err := r.ShutDownProject()
		tracer.Emit("ApiEnd", "", 0, "id", id, "ok", err == nil, "err", errStr(err))
	case "probe":
		kind := "ready"
		if op.Live {
			kind = "live"
		}
		if !op.Late && !fakecmd.AliveProc(op.P) && !d.daemonUp(op.P) {
			return // probes only run while the command is alive (late: a completion arriving after the end)
		}
		// completions of one check are serial in go-health; its consecutive-failure counter is reset when
		// the checks are stopped, and a completion arriving while the prober is stopped is dropped
		d.probeMu.Lock()
		defer d.probeMu.Unlock()
		pid, ep := r.VerifProberStopEpoch(op.P, kind)
		epoch := fmt.Sprintf("%s/%d", pid, ep)
		d.mu.Lock()
		if epoch != d.probeEpoch[op.P+kind] {
			d.fails[op.P+kind] = 0
			d.probeEpoch[op.P+kind] = epoch
		}
		fails := d.fails[op.P+kind]
		if op.Ok {
			fails = 0
		} else {
			fails++
		}
		d.mu.Unlock()
		tracer.Emit("ProbeBegin", op.P, 0, "kind", kind)
		delivered := r.VerifInjectProbe(op.P, kind, op.Ok, fails, "scripted probe failure")
		if delivered {
			d.mu.Lock()
			d.fails[op.P+kind] = fails
			d.mu.Unlock()
		}
		if delivered && kind == "ready" {
			if st, err := r.GetProcessState(op.P); err == nil {
				tracer.Emit("ProbeResult", op.P, 0, "ok", op.Ok, "fails", fails, "health", st.Health, "status", st.Status, "late", op.Late)
			}
		}
	case "observe":
		tracer.Emit("ObserveBegin", "", 0, "id", id, "p", op.P)
		st, err := r.GetProcessState(op.P)
		if err != nil {
			tracer.Emit("ObserveEnd", "", 0, "id", id, "status", "unknown", "isRunning", false, "health", "-", "exit", 0, "restarts", 0)
		} else {
			tracer.Emit("ObserveEnd", "", 0, "id", id, "status", st.Status, "isRunning", st.IsRunning,
				"health", st.Health, "exit", st.ExitCode, "restarts", st.Restarts)
		}
	case "nop":
	}
}

func maxKillTO(sc *Scenario) int {
	m := 0
	for _, ps := range sc.Cfg.Procs {
		if ps.ShutdownTimeout > m {
			m = ps.ShutdownTimeout
		}
	}
	return m
}

var scenarioEpoch atomic.Int64

// Run executes one scenario against the real runner.
func Run(sc *Scenario) *Result {
	app.VerifReset()
	fakecmd.Reset()
	res := &Result{}
	d := &director{
		sc:         sc,
		rng:        rand.New(rand.NewSource(sc.Seed ^ 0x5eed)),
		evCount:    map[string]int{},
		gateCount:  map[string]int{},
		gateHits:   map[string]int{},
		fails:      map[string]int{},
		probeEpoch: map[string]string{},
		waiting:    map[int64]string{},
	}
	for _, st := range sc.Steps {
		d.steps = append(d.steps, &stepState{Step: st})
	}
	project := BuildProject(sc)
	runner, err := app.NewProjectRunner((&app.ProjectOpts{}).WithProject(project).WithOrderedShutDown(sc.Cfg.Ordered).WithIsTuiOn(true))
	if err != nil {
		res.Stuck = "newrunner: " + err.Error()
		return res
	}
	d.runner = runner

	scale := sc.Cfg.BackoffScaleUs
	// events of instances that were not spawned in this scenario (goroutines orphaned by an earlier,
	// unclean scenario) are dropped: every real instance emits Spawn before anything else
	var spawnedMu sync.Mutex
	spawned := map[int64]bool{}
	// a goroutine left over from an earlier scenario (e.g. a dependency wait that outlives its cancelled dependent)
	// loads the trace function BEFORE it computes instance numbers: numbers of the old scenario therefore always
	// arrive through the old scenario's closure, which is dead once a newer scenario has begun
	myEpoch := scenarioEpoch.Add(1)
	app.VerifTraceFn = func(ev string, proc string, inst int64, kv []any) {
		if scenarioEpoch.Load() != myEpoch {
			return
		}
		if inst != 0 {
			spawnedMu.Lock()
			if ev == "Spawn" {
				spawned[inst] = true
			}
			ok := spawned[inst] || ev == "SpawnRefused" // a refused instance is never spawned
			spawnedMu.Unlock()
			if !ok {
				return
			}
		}
		tracer.Emit(ev, proc, inst, kv...)
	}
	app.VerifGateFn = d.gate
	// Run()'s wait being satisfied (count zero) is the linearization point of its return
	app.VerifWgFn = func(delta int, n int) {
		if delta == 0 {
			tracer.Emit("WgZero", "", 0, "n", n)
		}
	}
	app.VerifCommanderFn = func(info app.VerifLaunchInfo) command.Commander {
		argv := append([]string{info.Executable}, info.Args...)
		return fakecmd.New(info.Proc, info.Inst, info.Attempt, argv, d.behaviour(info.Proc, info.Attempt))
	}
	app.VerifBackoffFn = func(proc string, inst int64, dur time.Duration) (time.Duration, bool) {
		tracer.Emit("Backoff", proc, inst, "ms", int64(dur/time.Millisecond))
		return time.Duration(int64(dur) / 1000000 * int64(scale)), true
	}

	tracer.Begin(d.onEvent)
	cfgJSON, _ := json.Marshal(sc.Cfg)
	tracer.Emit("Config", "", 0, "cfg", json.RawMessage(cfgJSON), "id", sc.ID, "family", sc.Family, "seed", sc.Seed)

	runDone := make(chan struct{})
	begin := time.Now()
	go func() {
		defer func() {
			if rec := recover(); rec != nil {
				tracer.Emit("Panic", "", 0, "op", "run", "p", "", "msg", fmt.Sprint(rec), "site", panicSite())
				d.panicked.Store(true)
				close(runDone)
			}
		}()
		err := runner.Run()
		code := 0
		var ee *app.ExitError
		if errors.As(err, &ee) {
			code = ee.Code
		} else if err != nil {
			code = -999
		}
		tracer.Emit("RunReturn", "", 0, "code", code)
		close(runDone)
	}()

	// the API is only used once Run() has initialised the runner (first Spawn traced, or Run returned)
	for k := 0; k < 200 && tracer.Count("Spawn") == 0; k++ {
		select {
		case <-runDone:
			k = 200
		case <-time.After(250 * time.Microsecond):
		}
	}
	// tick-triggered steps
	for _, st := range d.steps {
		if st.When.Gate == "" && st.When.Event == "" {
			st := st
			st.fired = true
			d.inflight.Add(1)
			d.opsN.Add(1)
			go func() {
				defer d.opsN.Add(-1)
				defer d.inflight.Add(-1)
				time.Sleep(time.Until(begin.Add(time.Duration(st.When.Tick) * fakecmd.Tick)))
				d.doOp(st.Do)
			}()
		}
	}
	// observers
	obsStop := make(chan struct{})
	var obsWG sync.WaitGroup
	for _, p := range sc.Observe {
		p := p
		obsWG.Add(1)
		go func() {
			defer obsWG.Done()
			for {
				select {
				case <-obsStop:
					return
				case <-time.After(3 * fakecmd.Tick):
				}
				d.doOp(Op{Kind: "observe", P: p})
			}
		}()
	}

	endAt := begin.Add(time.Duration(sc.EndTick) * fakecmd.Tick)
	returned := false
	stuck := ""
	// phase 1: until Run returns or the scenario's end tick
	select {
	case <-runDone:
		returned = true
	case <-time.After(time.Until(endAt)):
	}
	if !returned {
		// is the project quiescent without having returned?  (C04: never waits forever)
		quietSince := time.Now()
		for !returned {
			if fakecmd.Alive() > 0 || d.anyDaemonUp() {
				break // something is running (a launched daemon has no command of its own): not stuck
			}
			if d.inflight.Load()-int64(0) > 0 || tracer.SinceLast() < quietBeforeStuck {
				if time.Since(quietSince) > 3*time.Second {
					break
				}
			} else {
				stuck = "before_shutdown"
				tracer.Emit("Stuck", "", 0, "phase", stuck, "alive", fakecmd.Alive(), "blocked", d.blocked())
				break
			}
			select {
			case <-runDone:
				returned = true
			case <-time.After(10 * time.Millisecond):
			}
		}
	}
	close(obsStop)
	{
		// an observer may be blocked inside the runner (e.g. behind a shutdown that never returns): do not wait forever
		obsDone := make(chan struct{})
		go func() { obsWG.Wait(); close(obsDone) }()
		select {
		case <-obsDone:
		case <-time.After(time.Duration(maxKillTO(sc))*2*time.Second + 3*time.Second):
			res.Dirty = true
		}
	}
	active := func() bool { return tracer.Count("Unreg") < tracer.Count("Spawn") || fakecmd.Alive() > 0 }
	waitOps := func(limit time.Duration) bool {
		for end := time.Now().Add(limit); time.Now().Before(end); time.Sleep(500 * time.Microsecond) {
			if d.opsN.Load() == 0 {
				return true
			}
		}
		return d.opsN.Load() == 0
	}
	killTO := time.Duration(maxKillTO(sc)) * time.Second
	// final shutdown(s) by the harness so that every scenario ends with nothing running, also when
	// API calls made after Run() returned have started new instances
	for round := 0; round < 3; round++ {
		if returned && !active() && d.inflight.Load() == 0 {
			break
		}
		if !returned || active() {
			shutDone := make(chan struct{})
			go func() {
				d.doOp(Op{Kind: "shutdown"})
				close(shutDone)
			}()
			select {
			case <-shutDone:
				if !returned {
					select {
					case <-runDone:
						returned = true
					case <-time.After(600 * time.Millisecond):
					}
				}
			case <-time.After(killTO*2 + 1500*time.Millisecond):
			}
			if !returned && round < 2 && (fakecmd.Alive() > 0 || d.inflight.Load() > 0) {
				// an API call made around the shutdown started something new: not a hang, shut down again
				waitOps(killTO + 1500*time.Millisecond)
				continue
			}
			if !returned {
				if stuck == "" {
					stuck = "after_shutdown"
				}
				tracer.Emit("Stuck", "", 0, "phase", "after_shutdown", "alive", fakecmd.Alive(), "blocked", d.blocked())
				if os.Getenv("VERIF_DUMP") != "" {
					buf := make([]byte, 1<<20)
					n := runtime.Stack(buf, true)
					os.Stderr.Write(buf[:n])
				}
				break
			}
		}
		// let in-flight API calls and the goroutine epilogues (Unreg after WaitGroup.Done) finish
		if !waitOps(killTO + 1500*time.Millisecond) {
			res.Dirty = true
			break
		}
		deadline := time.Now().Add(300 * time.Millisecond)
		for time.Now().Before(deadline) && tracer.Count("Unreg") < tracer.Count("Spawn") {
			time.Sleep(time.Millisecond)
		}
	}
	if active() || d.inflight.Load() != 0 {
		res.Dirty = true
	}
	if d.panicked.Load() {
		res.Dirty = true
	}
	atRest := returned && stuck == "" && !res.Dirty
	tracer.Emit("End", "", 0, "atRest", atRest)
	d.stopping.Store(true)
	res.Lines = tracer.End()
	if res.Dirty {
		fakecmd.KillAll()
	}
	res.Stuck = stuck
	d.mu.Lock()
	res.GateHits = d.gateHits
	res.HeldOK, res.HeldTO, res.StepsRun = d.heldOK, d.heldTO, d.stepsRun
	d.mu.Unlock()
	return res
}
