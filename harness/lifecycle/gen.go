package lifecycle

import (
	"fmt"
	"math/rand"

	"verifharness/fakecmd"
)

var Families = []string{"gating", "restart", "shutdown", "exiton", "manual", "health", "unsat"}

var conds = []string{"process_completed", "process_completed_successfully", "process_healthy", "process_log_ready", "process_started"}
var policies = []string{"no", "always", "on_failure", "exit_on_failure"}
var procNames = []string{"a", "b", "c", "d", "e", "f"}

func pick[T any](r *rand.Rand, xs ...T) T { return xs[r.Intn(len(xs))] }

func chance(r *rand.Rand, pct int) bool { return r.Intn(100) < pct }

// DefaultScale: one unscaled second of back-off = 20 ms.
const DefaultScale = 20000

func baseProc(name string) ProcSpec {
	return ProcSpec{Name: name, Policy: "no", Threshold: 1}
}

func autoB(after, code int) fakecmd.Behaviour {
	return fakecmd.Behaviour{ExitMode: "auto", AfterTicks: after, Code: code, SigCode: -1}
}

func sigB(latency int) fakecmd.Behaviour {
	return fakecmd.Behaviour{ExitMode: "signal", StopLatency: latency, SigCode: -1}
}

func withReady(b fakecmd.Behaviour, at int) fakecmd.Behaviour {
	b.Out = append(b.Out, fakecmd.OutItem{AtTick: 0, Stream: "stdout", Text: "starting"},
		fakecmd.OutItem{AtTick: at, Stream: pickStream(at), Text: "service READY now"})
	return b
}

func pickStream(at int) string {
	if at%2 == 0 {
		return "stdout"
	}
	return "stderr"
}

// Generate builds one scenario of the given family.
func Generate(family string, idx int, seed int64) *Scenario {
	r := rand.New(rand.NewSource(seed))
	sc := &Scenario{
		ID:      fmt.Sprintf("%s-%d-%d", family, seed, idx),
		Family:  family,
		Seed:    seed,
		Scripts: map[string][]fakecmd.Behaviour{},
		EndTick: 60,
	}
	sc.Cfg.BackoffScaleUs = DefaultScale
	sc.Cfg.Edges = []Edge{}
	sc.Cfg.Procs = []ProcSpec{}
	sc.Perturb = pick(r, 0, 0, 1, 1, 2)
	switch family {
	case "gating":
		genGating(r, sc)
	case "restart":
		genRestart(r, sc)
	case "shutdown":
		genShutdown(r, sc)
	case "exiton":
		genExitOn(r, sc)
	case "manual":
		genManual(r, sc)
	case "health":
		genHealth(r, sc)
	case "daemon":
		genDaemon(r, sc)
	case "unsat":
		genUnsat(r, sc)
	case "regate":
		genRegate(r, sc)
	default:
		genGating(r, sc)
	}
	if chance(r, 25) && len(sc.Cfg.Procs) > 0 {
		sc.Observe = append(sc.Observe, sc.Cfg.Procs[r.Intn(len(sc.Cfg.Procs))].Name)
	}
	return sc
}

// randomDag adds n processes with random dependency edges (k always earlier than p).
func randomDag(r *rand.Rand, sc *Scenario, n int, edgePct int, condSet []string) {
	for i := 0; i < n; i++ {
		sc.Cfg.Procs = append(sc.Cfg.Procs, baseProc(procNames[i]))
	}
	for i := 1; i < n; i++ {
		for k := 0; k < i; k++ {
			if chance(r, edgePct) {
				c := condSet[r.Intn(len(condSet))]
				sc.Cfg.Edges = append(sc.Cfg.Edges, Edge{P: procNames[i], K: procNames[k], Cond: c})
			}
		}
	}
	fixDepFeatures(r, sc)
}

// fixDepFeatures gives every dependency what its dependents' conditions need
// (ready probe for process_healthy, ready line for process_log_ready; never both).
func fixDepFeatures(r *rand.Rand, sc *Scenario) {
	for ei := range sc.Cfg.Edges {
		e := &sc.Cfg.Edges[ei]
		k := sc.proc(e.K)
		switch e.Cond {
		case "process_healthy":
			if k.HasReadyLine {
				e.Cond = "process_log_ready"
			} else {
				k.HasReadyProbe = true
				k.Threshold = pick(r, 1, 2, 3)
			}
		case "process_log_ready":
			if k.HasReadyProbe {
				e.Cond = "process_healthy"
			} else {
				k.HasReadyLine = true
			}
		}
	}
}

// scriptFor chooses the behaviour scripts of a process and the probe steps it needs.
func scriptFor(r *rand.Rand, sc *Scenario, ps *ProcSpec, persistentPct int) {
	var bs []fakecmd.Behaviour
	attempts := 1 + r.Intn(3)
	for a := 0; a < attempts; a++ {
		var b fakecmd.Behaviour
		if chance(r, persistentPct) {
			b = sigB(pick(r, 0, 0, 1, 3))
		} else {
			b = autoB(pick(r, 0, 1, 2, 4, 8, 15), pick(r, 0, 0, 0, 1, 2, 42, -1))
		}
		if chance(r, 4) {
			b.StartErr = true
		}
		if ps.HasReadyLine {
			switch r.Intn(10) {
			case 0: // never prints the ready line
				b.Out = []fakecmd.OutItem{{AtTick: 0, Stream: "stdout", Text: "no luck"}}
			default:
				b = withReady(b, pick(r, 0, 1, 3, 6))
			}
		} else if chance(r, 30) {
			b.Out = []fakecmd.OutItem{{AtTick: 0, Stream: "stdout", Text: "hello"}, {AtTick: 1, Stream: "stderr", Text: "world"}}
		}
		bs = append(bs, b)
	}
	sc.Scripts[ps.Name] = bs
	if ps.HasReadyProbe {
		// probe completions after each launch
		n := 1 + r.Intn(3)
		for a := 1; a <= 2; a++ {
			delay := pick(r, 1, 2, 4)
			for k := 0; k < n; k++ {
				ok := chance(r, 70)
				sc.Steps = append(sc.Steps, Step{
					When:      When{Event: "Launch", P: ps.Name, Nth: a},
					Do:        Op{Kind: "probe", P: ps.Name, Ok: ok},
					DelayTick: delay + 2*k,
				})
			}
		}
	}
}

func randomApiStep(r *rand.Rand, sc *Scenario, tickMax int) Step {
	p := sc.Cfg.Procs[r.Intn(len(sc.Cfg.Procs))].Name
	if chance(r, 5) {
		p = "nosuch"
	}
	return Step{When: When{Tick: 1 + r.Intn(tickMax)}, Do: Op{Kind: pick(r, "stop", "start", "restart", "stop", "restart"), P: p}}
}

var runGates = []string{"spawned", "run.precheck", "run.validated", "run.launch", "run.launch.locked", "run.reaped", "run.decide", "run.backoff"}

func genGating(r *rand.Rand, sc *Scenario) {
	n := 2 + r.Intn(4)
	randomDag(r, sc, n, pick(r, 40, 60, 80), conds)
	for i := range sc.Cfg.Procs {
		ps := &sc.Cfg.Procs[i]
		if chance(r, 15) {
			ps.Policy = pick(r, "always", "on_failure")
			ps.MaxRestarts = pick(r, 1, 2)
		}
		if chance(r, 3) {
			ps.BadWorkdir = true
		}
		if chance(r, 8) {
			ps.ExitOnSkipped = true
		}
		persistent := 25
		if ps.HasReadyProbe {
			persistent = 70
		}
		scriptFor(r, sc, ps, persistent)
	}
	if chance(r, 30) {
		sc.Steps = append(sc.Steps, randomApiStep(r, sc, 30))
	}
	if chance(r, 10) {
		sc.Steps = append(sc.Steps, randomApiStep(r, sc, 30))
	}
	sc.Cfg.Ordered = chance(r, 30)
	sc.EndTick = 50 + r.Intn(40)
}

func genRestart(r *rand.Rand, sc *Scenario) {
	ps := baseProc("a")
	ps.Policy = pick(r, policies...)
	ps.MaxRestarts = pick(r, 0, 0, 1, 2, 3)
	ps.Backoff = pick(r, 0, 0, 1, 2)
	sc.Cfg.Procs = append(sc.Cfg.Procs, ps)
	var bs []fakecmd.Behaviour
	n := 1 + r.Intn(5)
	for a := 0; a < n; a++ {
		b := autoB(pick(r, 0, 1, 3), pick(r, 0, 1, 0, 2, -1))
		if a == n-1 && chance(r, 40) {
			b = sigB(pick(r, 0, 1, 3))
		}
		bs = append(bs, b)
	}
	sc.Scripts["a"] = bs
	if chance(r, 40) {
		dep := baseProc("b")
		sc.Cfg.Procs = append(sc.Cfg.Procs, dep)
		sc.Cfg.Edges = append(sc.Cfg.Edges, Edge{P: "b", K: "a", Cond: pick(r, "process_completed", "process_completed_successfully", "process_started")})
		sc.Scripts["b"] = []fakecmd.Behaviour{autoB(pick(r, 0, 2), 0)}
	}
	// a stop / shutdown request at a chosen instant of the loop
	switch r.Intn(5) {
	case 0: // none
	case 1:
		sc.Steps = append(sc.Steps, Step{When: When{Tick: 1 + r.Intn(50)}, Do: Op{Kind: pick(r, "stop", "shutdown"), P: "a"}})
	default:
		g := pick(r, "run.reaped", "run.decide", "run.backoff", "run.launch", "run.launch.locked", "run.precheck", "run.validated")
		sc.Steps = append(sc.Steps, Step{
			When:      When{Gate: g, P: "a", Nth: 1 + r.Intn(3)},
			Do:        Op{Kind: pick(r, "stop", "stop", "shutdown"), P: "a"},
			HoldUntil: pick(r, "opDone", "opDone", ""),
			HoldMs:    80,
		})
	}
	sc.EndTick = 60 + r.Intn(60)
}

type shape struct {
	n     int
	edges [][2]int // p depends on k
}

var shapes = []shape{
	{3, [][2]int{{1, 0}, {2, 1}}},                 // chain
	{3, [][2]int{{1, 0}, {2, 0}}},                 // fan-in on a (two dependents)
	{4, [][2]int{{1, 0}, {2, 0}, {3, 0}}},         // fan-in, three dependents
	{3, [][2]int{{2, 0}, {2, 1}}},                 // fan-out (c depends on a and b)
	{4, [][2]int{{1, 0}, {2, 0}, {3, 1}, {3, 2}}}, // diamond
	{3, nil}, // independent
	{2, [][2]int{{1, 0}}},
	{4, [][2]int{{1, 0}, {2, 1}, {3, 2}}}, // long chain
}

func genShutdown(r *rand.Rand, sc *Scenario) {
	sh := shapes[r.Intn(len(shapes))]
	for i := 0; i < sh.n; i++ {
		sc.Cfg.Procs = append(sc.Cfg.Procs, baseProc(procNames[i]))
	}
	for _, e := range sh.edges {
		sc.Cfg.Edges = append(sc.Cfg.Edges, Edge{P: procNames[e[0]], K: procNames[e[1]],
			Cond: pick(r, "process_started", "process_started", "process_healthy", "process_log_ready", "process_completed", "process_completed_successfully")})
	}
	fixDepFeatures(r, sc)
	sc.Cfg.Ordered = chance(r, 60)
	for i := range sc.Cfg.Procs {
		ps := &sc.Cfg.Procs[i]
		if chance(r, 25) {
			ps.Policy = pick(r, "always", "on_failure")
		}
		isDepCompleted := false
		for _, e := range sc.Cfg.Edges {
			if e.K == ps.Name && (e.Cond == "process_completed" || e.Cond == "process_completed_successfully") {
				isDepCompleted = true
			}
		}
		persistent := 75
		if isDepCompleted {
			persistent = 10
		}
		scriptFor(r, sc, ps, persistent)
		// termination latencies of the (persistent) commands vary per process
		for bi := range sc.Scripts[ps.Name] {
			if sc.Scripts[ps.Name][bi].ExitMode == "signal" {
				sc.Scripts[ps.Name][bi].StopLatency = pick(r, 0, 1, 3, 6)
			}
		}
		if chance(r, 4) {
			// ignores the signal, needs SIGKILL after the time-out
			ps.ShutdownTimeout = 1
			for bi := range sc.Scripts[ps.Name] {
				sc.Scripts[ps.Name][bi].DiesOn = "kill"
			}
		}
	}
	if chance(r, 25) {
		// a crash-looping process next to a process that is slow to stop: the looper exits on its own
		// while the shutdown is busy with the slow one
		lp := baseProc("l")
		lp.Policy = pick(r, "always", "on_failure")
		lp.Backoff = pick(r, 0, 1)
		sl := baseProc("s")
		sl.ShutdownTimeout = pick(r, 0, 1, 1)
		sc.Cfg.Procs = append(sc.Cfg.Procs, lp, sl)
		sc.Cfg.Edges = append(sc.Cfg.Edges, Edge{P: "s", K: "l", Cond: "process_started"})
		sc.Scripts["l"] = []fakecmd.Behaviour{autoB(pick(r, 1, 2, 4), pick(r, 1, 2))}
		sc.Scripts["s"] = []fakecmd.Behaviour{sigB(pick(r, 15, 30, 45))}
	}
	if chance(r, 20) {
		// a disabled process that is started explicitly before the shutdown
		x := baseProc("x")
		x.Deferred = true
		sc.Cfg.Procs = append(sc.Cfg.Procs, x)
		sc.Scripts["x"] = []fakecmd.Behaviour{sigB(pick(r, 0, 2))}
		sc.Steps = append(sc.Steps, Step{When: When{Tick: 1 + r.Intn(4)}, Do: Op{Kind: "start", P: "x"}})
	}
	target := sc.Cfg.Procs[r.Intn(len(sc.Cfg.Procs))].Name
	switch r.Intn(4) {
	case 0:
		sc.Steps = append(sc.Steps, Step{When: When{Tick: 6 + r.Intn(30)}, Do: Op{Kind: "shutdown"}})
	case 1:
		sc.Steps = append(sc.Steps, Step{When: When{Event: pick(r, "Launch", "Exit", "Started", "Spawn", "State"), P: target, Nth: 1 + r.Intn(2)}, Do: Op{Kind: "shutdown"}, DelayTick: r.Intn(3)})
	default:
		g := pick(r, append(runGates, "waitdep")...)
		sc.Steps = append(sc.Steps, Step{
			When:      When{Gate: g, P: target, Nth: 1 + r.Intn(2)},
			Do:        Op{Kind: "shutdown"},
			HoldUntil: pick(r, "opDone", "event", "event"),
			UntilEv:   "ShutdownReturn",
			HoldMs:    80,
		})
	}
	sc.EndTick = 50 + r.Intn(30)
}

func genExitOn(r *rand.Rand, sc *Scenario) {
	n := 2 + r.Intn(3)
	randomDag(r, sc, n, 35, []string{"process_completed", "process_completed_successfully", "process_started", "process_started"})
	carriers := 0
	for i := range sc.Cfg.Procs {
		ps := &sc.Cfg.Procs[i]
		switch r.Intn(5) {
		case 0:
			ps.Policy = "exit_on_failure"
			carriers++
		case 1:
			ps.ExitOnEnd = true
			carriers++
		case 2:
			ps.ExitOnSkipped = true
		}
		scriptFor(r, sc, ps, 35)
	}
	if carriers == 0 {
		sc.Cfg.Procs[0].Policy = "exit_on_failure"
		sc.Scripts["a"] = []fakecmd.Behaviour{autoB(pick(r, 1, 4, 9), pick(r, 1, 2, 42, 0))}
	}
	if chance(r, 20) {
		sc.Steps = append(sc.Steps, randomApiStep(r, sc, 25))
	}
	sc.Cfg.Ordered = chance(r, 30)
	sc.EndTick = 50 + r.Intn(30)
}

func genManual(r *rand.Rand, sc *Scenario) {
	ps := baseProc("a")
	ps.Policy = pick(r, "no", "no", "always", "on_failure")
	ps.MaxRestarts = pick(r, 0, 2)
	ps.Backoff = pick(r, 0, 1)
	var bs []fakecmd.Behaviour
	kind := r.Intn(5)
	switch kind {
	case 0: // exits fast
		bs = []fakecmd.Behaviour{autoB(pick(r, 0, 1, 2), pick(r, 0, 1))}
	case 1: // persistent, reacts quickly
		bs = []fakecmd.Behaviour{sigB(0)}
	case 2: // slow reaction to the signal (longer than the back-off)
		bs = []fakecmd.Behaviour{sigB(pick(r, 8, 15, 25))}
	case 3: // ignores the signal until SIGKILL
		b := sigB(0)
		b.DiesOn = "kill"
		ps.ShutdownTimeout = 1
		bs = []fakecmd.Behaviour{b}
	case 4: // crash loop
		ps.Policy = "always"
		bs = []fakecmd.Behaviour{autoB(1, 1), autoB(2, 0), sigB(1)}
	}
	if chance(r, 20) {
		ps.Deferred = true // disabled process, only started explicitly
	}
	sc.Cfg.Ordered = chance(r, 40)
	sc.Cfg.Procs = append(sc.Cfg.Procs, ps)
	sc.Scripts["a"] = bs
	if chance(r, 35) && !ps.Deferred {
		// a is pending on a dependency for a while
		dep := baseProc("z")
		sc.Cfg.Procs = append([]ProcSpec{dep}, sc.Cfg.Procs...)
		sc.Cfg.Edges = append(sc.Cfg.Edges, Edge{P: "a", K: "z", Cond: pick(r, "process_completed", "process_completed_successfully")})
		sc.Scripts["z"] = []fakecmd.Behaviour{autoB(pick(r, 5, 12, 20), pick(r, 0, 0, 1))}
	}
	if chance(r, 30) {
		d2 := baseProc("w")
		sc.Cfg.Procs = append(sc.Cfg.Procs, d2)
		sc.Cfg.Edges = append(sc.Cfg.Edges, Edge{P: "w", K: "a", Cond: pick(r, "process_completed", "process_started")})
		sc.Scripts["w"] = []fakecmd.Behaviour{autoB(2, 0)}
	}
	nops := 1 + r.Intn(3)
	tick := 1 + r.Intn(10)
	for k := 0; k < nops; k++ {
		op := pick(r, "start", "stop", "restart")
		name := "a"
		if chance(r, 6) {
			name = "ghost"
		}
		mode := r.Intn(6)
		switch {
		case mode <= 2: // sequential, spaced
			sc.Steps = append(sc.Steps, Step{When: When{Tick: tick}, Do: Op{Kind: op, P: name}})
			tick += pick(r, 1, 4, 12, 30)
		case mode == 3: // concurrent duplicate
			sc.Steps = append(sc.Steps, Step{When: When{Tick: tick}, Do: Op{Kind: op, P: name}},
				Step{When: When{Tick: tick}, Do: Op{Kind: pick(r, op, "start", "restart", "stop"), P: name}})
			tick += pick(r, 4, 12)
		case mode == 4: // fired inside another call's window
			g := pick(r, "api.start.checked", "api.restart.stopped", "api.restart.slept", "run.launch", "run.launch.locked", "run.precheck", "stop.cancelled", "stop.checked.running", "stop.checked.notrunning")
			sc.Steps = append(sc.Steps, Step{When: When{Gate: g, P: name, Nth: 1}, Do: Op{Kind: op, P: name}, HoldUntil: pick(r, "opDone", ""), HoldMs: 70})
			sc.Steps = append(sc.Steps, Step{When: When{Tick: tick}, Do: Op{Kind: pick(r, "start", "restart", "stop"), P: name}})
			tick += pick(r, 4, 12)
		default: // right after an event
			sc.Steps = append(sc.Steps, Step{When: When{Event: pick(r, "Exit", "Launch", "Signal", "Done", "Unreg"), P: name, Nth: 1}, Do: Op{Kind: op, P: name}, DelayTick: r.Intn(2)})
		}
	}
	sc.EndTick = tick + 40 + r.Intn(30)
	if sc.EndTick < 60 {
		sc.EndTick = 60
	}
}

func genHealth(r *rand.Rand, sc *Scenario) {
	svc := baseProc("a")
	svc.HasReadyProbe = true
	svc.Threshold = pick(r, 1, 2, 3)
	svc.Policy = pick(r, policies...)
	svc.MaxRestarts = pick(r, 0, 0, 2)
	sc.Cfg.Procs = append(sc.Cfg.Procs, svc)
	sc.Scripts["a"] = []fakecmd.Behaviour{sigB(pick(r, 0, 1)), sigB(0), sigB(0)}
	if chance(r, 25) {
		sc.Scripts["a"] = []fakecmd.Behaviour{autoB(pick(r, 4, 10), pick(r, 0, 1)), sigB(0)}
	}
	if chance(r, 70) {
		d := baseProc("b")
		sc.Cfg.Procs = append(sc.Cfg.Procs, d)
		sc.Cfg.Edges = append(sc.Cfg.Edges, Edge{P: "b", K: "a", Cond: "process_healthy"})
		sc.Scripts["b"] = []fakecmd.Behaviour{autoB(pick(r, 1, 5), 0)}
	}
	// probe outcome sequence
	n := 1 + r.Intn(6)
	t := 1 + r.Intn(3)
	for k := 0; k < n; k++ {
		sc.Steps = append(sc.Steps, Step{When: When{Tick: t}, Do: Op{Kind: "probe", P: "a", Ok: chance(r, 50)}})
		t += 1 + r.Intn(4)
	}
	if chance(r, 30) {
		sc.Steps = append(sc.Steps, Step{When: When{Tick: r.Intn(t + 5)}, Do: Op{Kind: pick(r, "stop", "restart", "start"), P: "a"}})
	}
	if chance(r, 40) {
		// a probe completion that arrives after the process has ended
		sc.Steps = append(sc.Steps, Step{When: When{Event: "Done", P: "a", Nth: 1}, Do: Op{Kind: "probe", P: "a", Ok: chance(r, 70), Late: true}, DelayTick: r.Intn(2)})
	}
	if chance(r, 30) {
		// keeps failing after the restart that followed the first fatal failure
		for k := 0; k < 4; k++ {
			sc.Steps = append(sc.Steps, Step{When: When{Event: "Launch", P: "a", Nth: 2}, Do: Op{Kind: "probe", P: "a", Ok: false}, DelayTick: 1 + 2*k})
		}
	}
	if chance(r, 30) {
		sc.Observe = append(sc.Observe, "a")
	}
	sc.EndTick = t + 50
}

// genUnsat: a dependency fails to meet the declared condition in every way the statement of C05 lists
// (exit code, start error, bad working dir, stopped by the user while running / pending / restarting,
// exits before its ready line or first probe success), with transitive dependents behind it.
// genDaemon: a daemon (launcher exits, the process is then Launched) with a liveness probe; failure_threshold
// consecutive failures make it "exited", after which its restart policy decides
func genDaemon(r *rand.Rand, sc *Scenario) {
	dm := baseProc("a")
	dm.Daemon = true
	dm.HasLiveProbe = true
	dm.ShutdownCmd = true
	dm.Threshold = pick(r, 1, 2, 3)
	dm.Policy = pick(r, "no", "always", "always", "on_failure", "exit_on_failure")
	dm.MaxRestarts = pick(r, 0, 0, 1, 2)
	sc.Cfg.Procs = append(sc.Cfg.Procs, dm)
	// launcher: returns 0 quickly / slowly (probes arrive while it is still Launching) / fails
	var bs []fakecmd.Behaviour
	for a := 0; a < 3; a++ {
		bs = append(bs, autoB(pick(r, 0, 1, 1, 6, 12), pick(r, 0, 0, 0, 0, 1)))
	}
	sc.Scripts["a"] = bs
	if chance(r, 40) {
		// an ordinary process next to it keeps the project busy for a while
		o := baseProc("b")
		sc.Cfg.Procs = append(sc.Cfg.Procs, o)
		sc.Scripts["b"] = []fakecmd.Behaviour{autoB(pick(r, 5, 20, 40), 0)}
		if chance(r, 40) {
			sc.Cfg.Edges = append(sc.Cfg.Edges, Edge{P: "b", K: "a", Cond: "process_started"})
		}
	}
	// liveness outcomes: mostly runs of failures long enough to reach the threshold
	t := 1 + r.Intn(4)
	n := 2 + r.Intn(7)
	for k := 0; k < n; k++ {
		sc.Steps = append(sc.Steps, Step{When: When{Tick: t}, Do: Op{Kind: "probe", P: "a", Live: true, Ok: chance(r, 25)}})
		t += 1 + r.Intn(3)
	}
	if chance(r, 35) {
		// keeps failing after the first relaunch
		for k := 0; k < 4; k++ {
			sc.Steps = append(sc.Steps, Step{When: When{Event: "Launch", P: "a", Nth: 2}, Do: Op{Kind: "probe", P: "a", Live: true, Ok: false}, DelayTick: 2 + 2*k})
		}
	}
	if chance(r, 30) {
		sc.Steps = append(sc.Steps, Step{When: When{Tick: 2 + r.Intn(t+6)}, Do: Op{Kind: pick(r, "stop", "restart", "shutdown"), P: "a"}})
	}
	if chance(r, 30) {
		sc.Observe = append(sc.Observe, "a")
	}
	sc.EndTick = t + 130
}

func genUnsat(r *rand.Rand, sc *Scenario) {
	root := baseProc("a")
	cond := pick(r, "process_completed_successfully", "process_healthy", "process_log_ready", "process_started", "process_completed_successfully", "process_log_ready")
	mode := pick(r, "exit", "startErr", "badDir", "stopRunning", "stopPending", "stopBackoff", "exitEarly", "neverReady", "fatalProbe", "ok")
	var b fakecmd.Behaviour
	switch cond {
	case "process_healthy":
		root.HasReadyProbe = true
		root.Threshold = pick(r, 1, 2)
	case "process_log_ready":
		root.HasReadyLine = true
	}
	b = sigB(pick(r, 0, 1, 3))
	switch mode {
	case "exit":
		b = autoB(pick(r, 1, 3, 8), pick(r, 1, 2, -1, 42))
	case "startErr":
		b.StartErr = true
	case "badDir":
		root.BadWorkdir = true
	case "stopRunning":
		sc.Steps = append(sc.Steps, Step{When: When{Tick: pick(r, 3, 6, 10)}, Do: Op{Kind: pick(r, "stop", "stop", "restart"), P: "a"}})
	case "stopPending":
		z := baseProc("z")
		sc.Cfg.Procs = append(sc.Cfg.Procs, z)
		sc.Cfg.Edges = append(sc.Cfg.Edges, Edge{P: "a", K: "z", Cond: "process_completed"})
		sc.Scripts["z"] = []fakecmd.Behaviour{autoB(pick(r, 10, 20), 0)}
		sc.Steps = append(sc.Steps, Step{When: When{Tick: pick(r, 2, 5)}, Do: Op{Kind: "stop", P: "a"}})
	case "stopBackoff":
		root.Policy = pick(r, "on_failure", "always")
		b = autoB(pick(r, 1, 2), pick(r, 1, 2))
		sc.Steps = append(sc.Steps, Step{When: When{Gate: "run.backoff", P: "a", Nth: 1}, Do: Op{Kind: pick(r, "stop", "shutdown"), P: "a"}, HoldUntil: "opDone", HoldMs: 80})
	case "exitEarly":
		b = autoB(pick(r, 1, 2), pick(r, 0, 1))
	case "neverReady":
		sc.Steps = append(sc.Steps, Step{When: When{Tick: pick(r, 8, 15)}, Do: Op{Kind: pick(r, "stop", "shutdown", "restart"), P: "a"}})
	case "fatalProbe":
		root.HasReadyProbe = true
		root.Threshold = pick(r, 1, 2)
		cond = "process_healthy"
		root.HasReadyLine = false
		for k := 0; k < root.Threshold; k++ {
			sc.Steps = append(sc.Steps, Step{When: When{Tick: 3 + 2*k}, Do: Op{Kind: "probe", P: "a", Ok: false}})
		}
	case "ok":
	}
	if root.HasReadyLine {
		switch mode {
		case "ok":
			b = withReady(b, pick(r, 1, 3))
		case "stopRunning":
			if chance(r, 50) {
				b = withReady(b, pick(r, 12, 20)) // would become ready, but only after the stop
			}
		case "exit":
			if chance(r, 40) {
				b = withReady(b, 0)
			}
		}
	}
	if root.HasReadyProbe && mode != "fatalProbe" {
		ok := mode == "ok" || (mode == "exit" && chance(r, 40))
		if ok || chance(r, 30) {
			sc.Steps = append(sc.Steps, Step{When: When{Event: "Launch", P: "a", Nth: 1}, Do: Op{Kind: "probe", P: "a", Ok: ok}, DelayTick: 1})
		}
	}
	sc.Cfg.Procs = append(sc.Cfg.Procs, root)
	sc.Scripts["a"] = []fakecmd.Behaviour{b, autoB(2, 0)}
	// transitive dependents
	depth := 1 + r.Intn(3)
	prev := "a"
	for dI := 0; dI < depth; dI++ {
		name := procNames[1+dI]
		ps := baseProc(name)
		c := cond
		if dI > 0 {
			c = pick(r, "process_completed_successfully", "process_completed", "process_started", "process_completed_successfully")
		}
		if chance(r, 25) {
			ps.ExitOnSkipped = true
		}
		sc.Cfg.Procs = append(sc.Cfg.Procs, ps)
		sc.Cfg.Edges = append(sc.Cfg.Edges, Edge{P: name, K: prev, Cond: c})
		sc.Scripts[name] = []fakecmd.Behaviour{autoB(pick(r, 1, 3), pick(r, 0, 0, 1))}
		if chance(r, 30) && dI > 0 {
			// a second, slow dependency so that the failed one is resolved late
			w := baseProc("w")
			if sc.proc("w") == nil {
				sc.Cfg.Procs = append(sc.Cfg.Procs, w)
				sc.Scripts["w"] = []fakecmd.Behaviour{autoB(pick(r, 8, 14), 0)}
			}
			sc.Cfg.Edges = append(sc.Cfg.Edges, Edge{P: name, K: "w", Cond: "process_completed"})
		}
		prev = name
	}
	if chance(r, 20) {
		sc.Steps = append(sc.Steps, Step{When: When{Tick: 25 + r.Intn(10)}, Do: Op{Kind: pick(r, "start", "restart"), P: procNames[1]}})
	}
	sc.Cfg.Ordered = chance(r, 30)
	sc.EndTick = 50 + r.Intn(20)
}

// genRegate: a chain x <- d <- b (b waits for d, d waits for x) runs to its end once; then the chain is started again
// through the API from the root, the new instance of x running for a long time: the new instance of d is pending, and a
// dependent started now has to wait for THAT instance, not for the record the previous run left behind.
func genRegate(r *rand.Rand, sc *Scenario) {
	x, d, b := baseProc("x"), baseProc("d"), baseProc("b")
	sc.Cfg.Procs = append(sc.Cfg.Procs, x, d, b)
	c1 := pick(r, "process_completed", "process_completed_successfully")
	c2 := pick(r, "process_completed", "process_completed_successfully")
	sc.Cfg.Edges = append(sc.Cfg.Edges, Edge{P: "d", K: "x", Cond: c1}, Edge{P: "b", K: "d", Cond: c2})
	long := pick(r, 25, 40, 60)
	sc.Scripts["x"] = []fakecmd.Behaviour{autoB(pick(r, 1, 2, 4), 0), autoB(long, 0)}
	sc.Scripts["d"] = []fakecmd.Behaviour{autoB(pick(r, 1, 2), 0), autoB(pick(r, 1, 3), pick(r, 0, 0, 1))}
	sc.Scripts["b"] = []fakecmd.Behaviour{autoB(1, 0)}
	if chance(r, 30) { // an unrelated fourth process keeps the project busy
		sc.Cfg.Procs = append(sc.Cfg.Procs, baseProc("u"))
		sc.Scripts["u"] = []fakecmd.Behaviour{autoB(pick(r, 3, 30), 0)}
	}
	t := 14 + r.Intn(8)
	op := func() string { return pick(r, "restart", "start") }
	sc.Steps = append(sc.Steps, Step{When: When{Tick: t}, Do: Op{Kind: op(), P: "x"}})
	t += pick(r, 2, 4)
	sc.Steps = append(sc.Steps, Step{When: When{Tick: t}, Do: Op{Kind: op(), P: "d"}})
	t += pick(r, 1, 3, 6)
	sc.Steps = append(sc.Steps, Step{When: When{Tick: t}, Do: Op{Kind: op(), P: "b"}})
	if chance(r, 30) {
		sc.Steps = append(sc.Steps, Step{When: When{Tick: t + pick(r, 2, 5)}, Do: Op{Kind: pick(r, "stop", "restart"), P: pick(r, "x", "d")}})
	}
	sc.Cfg.Ordered = chance(r, 30)
	sc.EndTick = t + long + 30
}
