// Package lifecycle drives the real ProjectRunner (built from /repo with
// -tags verif) through generated scenarios with scripted commanders and
// records the event trace that PCLifecycleTrace.tla validates.
package lifecycle

import (
	"verifharness/fakecmd"
)

// ProcSpec is the abstract configuration of one process (also the `cfg`
// record of the specification: field names are shared with PCEvents.tla).
type ProcSpec struct {
	Name            string `json:"name"`
	Policy          string `json:"policy"` // no | always | on_failure | exit_on_failure
	MaxRestarts     int    `json:"maxRestarts"`
	Backoff         int    `json:"backoff"`
	ExitOnEnd       bool   `json:"exitOnEnd"`
	ExitOnSkipped   bool   `json:"exitOnSkipped"`
	Deferred        bool   `json:"deferred"`
	Daemon          bool   `json:"daemon"`
	HasReadyProbe   bool   `json:"hasReadyProbe"`
	HasLiveProbe    bool   `json:"hasLiveProbe"`
	HasReadyLine    bool   `json:"hasReadyLine"`
	Threshold       int    `json:"threshold"`
	ShutdownTimeout int    `json:"shutdownTimeout"`
	Signal          int    `json:"signal"`
	BadWorkdir      bool   `json:"badWorkdir"`
	ShutdownCmd     bool   `json:"shutdownCmd"` // shutdown.command configured (a real, trivial shell command)
}

type Edge struct {
	P    string `json:"p"`
	K    string `json:"k"`
	Cond string `json:"cond"`
}

// Cfg is the first record of every trace.
type Cfg struct {
	Procs          []ProcSpec `json:"procs"`
	Edges          []Edge     `json:"edges"`
	Ordered        bool       `json:"ordered"`
	BackoffScaleUs int        `json:"backoffScaleUs"` // scaled microseconds per unscaled second
}

// When says what fires a step.
type When struct {
	Tick  int    `json:"tick,omitempty"`
	Event string `json:"event,omitempty"`
	Gate  string `json:"gate,omitempty"`
	P     string `json:"p,omitempty"`
	Nth   int    `json:"nth,omitempty"` // 1-based occurrence, default 1
}

// Op is an action of the environment / API client.
type Op struct {
	Kind string `json:"kind"` // stop | start | restart | shutdown | probe | observe | nop
	P    string `json:"p,omitempty"`
	Ok   bool   `json:"ok,omitempty"`   // probe outcome
	Live bool   `json:"live,omitempty"` // liveness instead of readiness probe
	Late bool   `json:"late,omitempty"` // probe completion delivered although the command is no longer alive
}

// Step = trigger + op (+ how long a gate-triggered step holds the goroutine).
type Step struct {
	When      When   `json:"when"`
	Do        Op     `json:"do"`
	HoldUntil string `json:"holdUntil,omitempty"` // "" | "opDone" | "event"
	UntilEv   string `json:"untilEv,omitempty"`
	UntilP    string `json:"untilP,omitempty"`
	HoldMs    int    `json:"holdMs,omitempty"`
	DelayTick int    `json:"delayTick,omitempty"` // event-triggered ops: delay before the op
}

type Scenario struct {
	ID      string                         `json:"id"`
	Family  string                         `json:"family"`
	Seed    int64                          `json:"seed"`
	Cfg     Cfg                            `json:"cfg"`
	Scripts map[string][]fakecmd.Behaviour `json:"scripts"` // per process: per attempt (last repeats)
	Steps   []Step                         `json:"steps"`
	EndTick int                            `json:"endTick"`
	Perturb int                            `json:"perturb"` // 0 none, 1 light, 2 heavy
	Observe []string                       `json:"observe,omitempty"`
}

func (s *Scenario) proc(name string) *ProcSpec {
	for i := range s.Cfg.Procs {
		if s.Cfg.Procs[i].Name == name {
			return &s.Cfg.Procs[i]
		}
	}
	return nil
}
