package main

import "verifharness/records"

// extraMain dispatches the record-validation subcommands (added per property family).
func extraMain(cmd string, args []string) bool {
	if f, ok := extraCmds[cmd]; ok {
		f(args)
		return true
	}
	return false
}

var extraCmds = map[string]func([]string){
	"logbuf":       records.LogbufMain,
	"logbufreplay": records.LogbufReplayMain,
	"plan":         records.PlanMain,
	"merge":        records.MergeMain,
	"load":         records.LoadMain,
	"env":          records.EnvMain,
	"probe":        records.ProbeMain,
	"scale":        records.ScaleMain,
	"ordshut":      records.OrdShutMain,
	"output":       records.OutputMain,
	"api":          records.ApiMain,
	"osstop":       records.OsstopMain,
	"conc":         records.ConcMain,
}
