// pcharness: drives the real process-compose code (built from /repo with
// -tags verif) and writes ndjson traces / records for the TLA+ specs.
package main

import (
	"bufio"
	"encoding/json"
	"flag"
	"fmt"
	"os"
	"strings"
	"syscall"

	"github.com/rs/zerolog"

	"verifharness/lifecycle"
)

func main() {
	if len(os.Args) < 2 {
		fmt.Fprintln(os.Stderr, "usage: pcharness <lifecycle|replay> ...")
		os.Exit(2)
	}
	zerolog.SetGlobalLevel(zerolog.Disabled)
	switch os.Args[1] {
	case "lifecycle":
		lifecycleMain(os.Args[2:])
	case "replay":
		replayMain(os.Args[2:])
	default:
		if !extraMain(os.Args[1], os.Args[2:]) {
			fmt.Fprintln(os.Stderr, "unknown subcommand", os.Args[1])
			os.Exit(2)
		}
	}
}

type stats struct {
	Scenarios int            `json:"scenarios"`
	Events    int            `json:"events"`
	Stuck     int            `json:"stuck"`
	Dirty     int            `json:"dirty"`
	HeldOK    int            `json:"heldOK"`
	HeldTO    int            `json:"heldTimeout"`
	StepsRun  int            `json:"stepsRun"`
	GateHits  map[string]int `json:"gateHits"`
	Families  map[string]int `json:"families"`
}

// lifecycleMain: pcharness lifecycle -seed S -shard k -of n -count N -families a,b -out file [-resume idx]
func lifecycleMain(args []string) {
	fs := flag.NewFlagSet("lifecycle", flag.ExitOnError)
	seed := fs.Int64("seed", 1, "seed")
	shard := fs.Int("shard", 0, "shard index")
	of := fs.Int("of", 1, "number of shards")
	count := fs.Int("count", 100, "total scenarios over all shards")
	fams := fs.String("families", strings.Join(lifecycle.Families, ","), "families (weighted by repetition)")
	out := fs.String("out", "trace.ndjson", "output ndjson")
	scen := fs.String("scenarios", "", "also write the scenarios (ndjson) here")
	resume := fs.Int("resume", 0, "resume from scenario index")
	unscaledPct := fs.Int("unscaled", 0, "percent of restart scenarios run with unscaled back-off")
	_ = fs.Parse(args)
	families := strings.Split(*fams, ",")

	flags := os.O_CREATE | os.O_WRONLY | os.O_APPEND
	if *resume == 0 {
		flags = os.O_CREATE | os.O_WRONLY | os.O_TRUNC
	}
	f, err := os.OpenFile(*out, flags, 0o644)
	if err != nil {
		fmt.Fprintln(os.Stderr, err)
		os.Exit(2)
	}
	w := bufio.NewWriterSize(f, 1<<20)
	var sw *bufio.Writer
	if *scen != "" {
		sf, err := os.OpenFile(*scen, flags, 0o644)
		if err == nil {
			sw = bufio.NewWriter(sf)
			defer sf.Close()
		}
	}
	st := stats{GateHits: map[string]int{}, Families: map[string]int{}}
	statsPath := *out + ".stats.json"
	if *resume > 0 {
		if b, err := os.ReadFile(statsPath); err == nil {
			_ = json.Unmarshal(b, &st)
		}
	}
	flush := func() {
		_ = w.Flush()
		if sw != nil {
			_ = sw.Flush()
		}
		b, _ := json.Marshal(st)
		_ = os.WriteFile(statsPath, b, 0o644)
	}
	for idx := *resume; idx < *count; idx++ {
		if idx%*of != *shard {
			continue
		}
		fam := families[idx%len(families)]
		sc := lifecycle.Generate(fam, idx, *seed*1000003+int64(idx))
		if *unscaledPct > 0 && fam == "restart" && idx%100 < *unscaledPct {
			sc.Cfg.BackoffScaleUs = 1000000
			sc.EndTick = 3000
		}
		res := lifecycle.Run(sc)
		for _, l := range res.Lines {
			_, _ = w.Write(l)
			_ = w.WriteByte('\n')
		}
		if sw != nil {
			b, _ := json.Marshal(sc)
			_, _ = sw.Write(b)
			_ = sw.WriteByte('\n')
		}
		st.Scenarios++
		st.Events += len(res.Lines)
		st.Families[fam]++
		st.HeldOK += res.HeldOK
		st.HeldTO += res.HeldTO
		st.StepsRun += res.StepsRun
		for k, v := range res.GateHits {
			st.GateHits[k] += v
		}
		if res.Stuck != "" {
			st.Stuck++
		}
		if res.Dirty {
			// goroutines of the stuck scenario may still be alive: continue in a fresh process image
			st.Dirty++
			flush()
			_ = f.Close()
			nargs := []string{os.Args[0], "lifecycle"}
			for _, a := range args {
				if strings.HasPrefix(a, "-resume") {
					continue
				}
				nargs = append(nargs, a)
			}
			nargs = append(nargs, fmt.Sprintf("-resume=%d", idx+1))
			if err := syscall.Exec(os.Args[0], nargs, os.Environ()); err != nil {
				fmt.Fprintln(os.Stderr, "re-exec failed:", err)
				os.Exit(2)
			}
		}
	}
	flush()
	_ = f.Close()
}

// replayMain: pcharness replay -scenario file.json -out trace.ndjson
func replayMain(args []string) {
	fs := flag.NewFlagSet("replay", flag.ExitOnError)
	in := fs.String("scenario", "", "scenario json")
	out := fs.String("out", "trace.ndjson", "output ndjson")
	_ = fs.Parse(args)
	b, err := os.ReadFile(*in)
	if err != nil {
		fmt.Fprintln(os.Stderr, err)
		os.Exit(2)
	}
	var sc lifecycle.Scenario
	if err := json.Unmarshal(b, &sc); err != nil {
		fmt.Fprintln(os.Stderr, err)
		os.Exit(2)
	}
	res := lifecycle.Run(&sc)
	f, _ := os.Create(*out)
	for _, l := range res.Lines {
		_, _ = f.Write(l)
		_, _ = f.Write([]byte("\n"))
	}
	_ = f.Close()
	if res.Dirty {
		os.Exit(0)
	}
}
