"""Life-cycle family checks (C01-C05, C08-C10, C12): scenarios on the real runner with scripted
commanders -> ndjson traces -> TLC (PCLifecycleTrace) evaluates the property predicates after every
event; plus the exhaustive TLC run of the code-shaped design model for the property's family."""
import json
import os
import subprocess
import time

import pcverif as V

PROPS = {
    "C01": dict(families="gating,gating,unsat,health,manual,shutdown,restart,exiton,gating,unsat,unsat,regate",
                need=["launchWithDeps"], model=["PCLifecycle_gating.cfg"], model_thorough=["PCLifecycle_gating.cfg", "PCLifecycle_gating3.cfg"]),
    "C02": dict(families="restart,restart,restart,shutdown,health,manual,gating,restart,shutdown,daemon",
                need=["relaunch", "backoff"], model=["PCLifecycle_restart.cfg"], model_thorough=["PCLifecycle_restart.cfg", "PCLifecycle_health.cfg"]),
    "C03": dict(families="shutdown,shutdown,shutdown,shutdown,restart,exiton,gating,manual",
                need=["shutdownReturn"], model=["PCLifecycle_shutdown2.cfg"], model_thorough=["PCLifecycle_shutdown2.cfg", "PCLifecycle_shutdown.cfg"]),
    "C04": dict(families="exiton,exiton,exiton,gating,unsat,shutdown,health,gating",
                need=["runReturn", "runReturnTrig"], model=["PCLifecycle_gating.cfg", "PCLifecycle_restart.cfg"], model_thorough=["PCLifecycle_gating.cfg", "PCLifecycle_restart.cfg", "PCLifecycle_shutdown2.cfg"]),
    "C05": dict(families="gating,unsat,unsat,exiton,health,shutdown,gating,unsat",
                need=["skipped", "launchWithDeps"], model=["PCLifecycle_gating.cfg"], model_thorough=["PCLifecycle_gating.cfg", "PCLifecycle_gating3.cfg"]),
    "C08": dict(families="manual,manual,manual,manual,restart,health,manual",
                need=["apiEnd", "launch"], model=["PCLifecycle_manualq.cfg"], model_thorough=["PCLifecycle_manualq.cfg", "PCLifecycle_manual.cfg", "PCLifecycle_manualconc.cfg"]),
    "C09": dict(families="gating,restart,shutdown,exiton,manual,health,unsat,daemon",
                need=["stateEv", "observeEnd", "atRest"], model=["PCLifecycle_gating.cfg", "PCLifecycle_restart.cfg"], model_thorough=["PCLifecycle_gating.cfg", "PCLifecycle_restart.cfg", "PCLifecycle_manualq.cfg"]),
    "C10": dict(families="health,health,health,daemon,daemon,gating,health",
                need=["readyState", "fatalProbe"], model=["PCLifecycle_health.cfg", "PCLifecycle_daemon.cfg"], model_thorough=["PCLifecycle_health.cfg", "PCLifecycle_daemon.cfg", "PCLifecycle_daemonapi.cfg"]),
    "C12": dict(families="shutdown,shutdown,shutdown,shutdown,gating,shutdown",
                need=["signalOrderedWithDependents"], model=["PCLifecycle_shutdown2.cfg"], model_thorough=["PCLifecycle_shutdown2.cfg", "PCLifecycle_shutdown.cfg"]),
}

COUNTS = {"quick": 1600, "thorough": 24000}

ASSUMPTIONS = [
    "managed commands are scripted commanders injected through the verif commander seam (no fork/exec); "
    "they are the ground truth for 'alive', exit codes and signals",
    "every scripted command either dies on the configured signal or has a shutdown time-out configured",
    "restart back-off is scaled (1 s -> 20 ms) through the verifBackoff hook; the unscaled value the code computed is logged and checked",
    "probe completions are injected through the real Prober.healthCheckCompleted path",
    "TLC (tla2tools 1.8.0) and the CommunityModules Json module are trusted; events are ordered by the tracer's sequence number",
]


def run(pid, tier, seed, replay=None):
    t0 = time.time()
    cfg = PROPS[pid]
    V.clean_workdir(pid)
    binary = V.build_harness(pid)
    if replay:
        return run_replay(pid, binary, replay)
    count = COUNTS[tier]
    extra = ["-unscaled", "1"] if tier == "thorough" else None
    files, stats = V.run_lifecycle_shards(pid, binary, seed, count, cfg["families"].split(","), extra=extra)
    V.log("harness: %d scenarios, %d events, %d stuck, %.1fs" % (stats["scenarios"], stats["events"], stats["stuck"], time.time() - t0))
    tv = V.validate_traces(pid, files)
    findings = V.load_findings()
    mine, others = [], {}
    seen = set()
    for v in tv["violations"]:
        for inv in v["invs"]:
            key = (v["sid"], inv)
            if key in seen:   # state invariants stay false: report the first event only
                continue
            seen.add(key)
            if inv.startswith(pid + "_") or (pid == "C06" and inv.startswith("C06_")):
                mine.append((inv, v))
            else:
                others[inv] = others.get(inv, 0) + 1
    known_hits, new = {}, []
    for inv, v in mine:
        f = V.match_finding(findings, pid, inv, V.viol_facts(v))
        if f:
            known_hits.setdefault(f["id"], [f, 0])[1] += 1
        else:
            new.append((inv, v))
    for fid, (f, n) in sorted(known_hits.items()):
        print("KNOWN-FINDING: property=%s %s [%s, %s, %d scenario(s) this run]" % (pid, f["what"], fid, f["invariant"], n))
    # C10: the effective probe parameters (pure function) are validated as records
    if pid == "C10":
        pv, pstats = probe_param_records(pid, binary, seed, tier)
        for v in pv:
            for inv in v["invs"]:
                new.append((inv, v))
        tv["states"] += pstats["states"]
        tv["transitions"] += pstats["lines"]
        tv["coverage"]["probeParamRecords"] = pstats["lines"]
    # C12: ordered shutdown while a scale-down / update is removing a dependent (records)
    if pid == "C12":
        pv, pstats = extra_records(pid, binary, seed, tier, "ordshut")
        for v in pv:
            for inv in v["invs"]:
                new.append((inv, v))
        tv["states"] += pstats["states"]
        tv["transitions"] += pstats["lines"]
        tv["coverage"]["orderedShutdownDuringRemovalRecords"] = pstats["lines"]
    # design model
    models = []
    for m in (cfg.get("model", []) if tier == "quick" else cfg.get("model_thorough", [])):
        if os.path.exists(os.path.join(V.VERIF, "spec", m)):
            r = V.run_tlc_model(pid, "PCLifecycleMC", m, timeout=600 if tier == "quick" else 3600)
            V.log("design model %s: %d distinct states, %.0fs, violated=%s" % (m, r["distinct"], r["wall_s"], r["violated"]))
            models.append(r)
    # vacuity
    vac = [k for k in cfg["need"] if tv["coverage"].get(k, 0) == 0]
    rc = 0
    paths = []
    for n, (inv, v) in enumerate(new[:20]):
        d = V.write_replay(pid, n, v, inv, files)
        paths.append(d)
        print("VIOLATION property=%s replay=%s" % (pid, d))
        V.log("   %s in scenario %s: %s" % (inv, v["sid"], json.dumps(v["last"])[:400]))
    if new:
        rc = 1
    samples = sample_traces(files, 2)
    coverage = {
        "states": tv["states"] + sum(m["distinct"] for m in models),
        "transitions": tv["transitions"] + sum(m["generated"] for m in models),
        "traces_validated_against_impl": stats["scenarios"],
        "samples": samples,
        "trace_events": tv["lines"],
        "design_models": [{k: m[k] for k in ("cfg", "distinct", "generated", "wall_s", "violated", "finished")} for m in models],
        "antecedent_hits": tv["coverage"],
        "vacuous": vac,
        "families": stats["families"],
        "gate_hits": stats["gateHits"],
        "steered_steps_held_ok": stats["heldOK"],
        "steered_steps_timed_out": stats["heldTimeout"],
        "api_and_env_steps_run": stats["stepsRun"],
        "stuck_scenarios": stats["stuck"],
        "invariants_checked": sorted({i for i in invariant_names() if i.startswith(pid + "_")}),
        "known_findings_hit": {fid: n for fid, (f, n) in known_hits.items()},
        "other_properties_violations_seen": others,
        "new_violations": [{"invariant": inv, "scenario": v["sid"], "replay": p} for (inv, v), p in zip(new, paths)],
        "rule": "seeded scenario generator (families %s) x gate-triggered steps x perturbed schedules; one trace per scenario; "
                "every property predicate evaluated by TLC after every event%s" % (cfg["families"],
                    "; plus records of ordered shutdowns begun while a scale-down / update is removing a slow dependent" if pid == "C12" else
                    "; plus records of the effective probe parameters over a parameter grid" if pid == "C10" else ""),
    }
    V.write_evidence(pid, tier, seed, "model_checking", coverage, ASSUMPTIONS, time.time() - t0, len(new))
    if rc == 0:
        bad_models = [m for m in models if m["violated"] or not m["finished"]]
        if bad_models:
            V.log("design model did not pass: %s" % bad_models)
            return 2
        if vac:
            V.log("vacuous antecedents (property never exercised): %s" % vac)
            return 2
    return rc


def probe_param_records(pid, binary, seed, tier):
    wd = V.workdir(pid, "probe")
    out = os.path.join(wd, "probe.ndjson")
    r = subprocess.run([binary, "probe", "-seed", str(seed), "-tier", tier, "-out", out], env=V.goenv(), capture_output=True, text=True)
    if r.returncode != 0:
        raise V.Inconclusive("probe record harness failed")
    res = V.run_tlc_trace(out, os.path.join(wd, "tlc"), "PCConfigTrace")
    return res["violations"], res


def extra_records(pid, binary, seed, tier, sub):
    wd = V.workdir(pid, sub)
    out = os.path.join(wd, sub + ".ndjson")
    r = subprocess.run([binary, sub, "-seed", str(seed), "-tier", tier, "-out", out], env=V.goenv(), capture_output=True, text=True)
    if r.returncode != 0:
        V.log(r.stderr[-1500:])
        raise V.Inconclusive("%s record harness failed" % sub)
    res = V.run_tlc_trace(out, os.path.join(wd, "tlc"), "PCConfigTrace")
    return res["violations"], res


def invariant_names():
    import re
    s = open(os.path.join(V.VERIF, "spec", "PCEvents.tla")).read()
    return re.findall(r'^(C\d\d_\w+)\(S\) ==', s, re.M)


def sample_traces(files, n):
    out = []
    for tf, _ in files[:n]:
        ev = []
        for line in open(tf):
            e = json.loads(line)
            if e["ev"] == "Config" and ev:
                break
            e.pop("seq", None)
            ev.append(e)
            if len(ev) >= 25:
                break
        out.append(ev)
    return out


def run_replay(pid, binary, path):
    wd = V.workdir(pid, "replay")
    sc = os.path.join(path, "scenario.json")
    out = os.path.join(wd, "trace.ndjson")
    r = subprocess.run([binary, "replay", "-scenario", sc, "-out", out], env=V.goenv(), capture_output=True, text=True)
    if r.returncode != 0:
        V.log(r.stderr[-2000:])
        return 2
    res = V.run_tlc_trace(out, os.path.join(wd, "tlc"))
    rc = 0
    for v in res["violations"]:
        for inv in v["invs"]:
            if inv.startswith(pid + "_"):
                print("VIOLATION property=%s replay=%s" % (pid, path))
                V.log("   %s: %s" % (inv, json.dumps(v["last"])[:400]))
                rc = 1
    return rc
