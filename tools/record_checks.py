"""Record-validated properties: the harness calls the real functions of /repo and logs
(input, output) records / operation histories; TLC evaluates the spec predicates on every record."""
import json
import os
import subprocess
import time

import pcverif as V

# property -> configuration
PROPS = {
    "C18": dict(sub="logbuf", trace_spec="PCLogBufferTrace", model=("PCLogBuffer", "PCLogBuffer_mc.cfg"),
                prefix=["C18_"], idfield="id", replay="logbuf_replay",
                assumptions=["lines are numbered in write order; deliveries and subscriptions are logged from inside the buffer's critical section (observer callbacks)",
                             "one writer goroutine concurrent with subscribers; range requests are issued in quiescent phases (GetLogRange takes no lock)",
                             "slack = 100 is read from the implementation constant; only 'not unboundedly more' (<= size+slack) is demanded"]),
}

_loaded = False


def _load_more():
    global _loaded
    if _loaded:
        return
    _loaded = True
    try:
        import record_props
        PROPS.update(record_props.PROPS)
    except ImportError:
        pass


def run(pid, tier, seed, replay=None):
    _load_more()
    if pid not in PROPS:
        V.log("no check registered for", pid)
        return 2
    cfg = PROPS[pid]
    t0 = time.time()
    V.clean_workdir(pid)
    binary = V.build_harness(pid)
    wd = V.workdir(pid, "records")
    out = os.path.join(wd, "records.ndjson")
    cmd = [binary, cfg["sub"], "-seed", str(seed), "-tier", tier, "-out", out] + cfg.get("args", [])
    if cfg.get("needs_pcbin"):
        pcbin = os.path.join(V.workdir(pid, "bin"), "process-compose")
        b = subprocess.run(["go", "build", "-o", pcbin, "./src"], cwd=V.REPO, env=V.goenv(), capture_output=True, text=True)
        if b.returncode != 0:
            V.log(b.stderr[-2000:])
            raise V.Inconclusive("building the process-compose binary failed")
        cmd += ["-pcbin", pcbin]
    r = subprocess.run(cmd, env=V.goenv(), capture_output=True, text=True, timeout=1500)
    if r.returncode != 0:
        V.log(r.stdout[-2000:], r.stderr[-3000:])
        raise V.Inconclusive("record harness failed rc=%d" % r.returncode)
    try:
        hstats = json.loads(r.stdout.strip().splitlines()[-1])
    except Exception:
        hstats = {}
    V.log("harness: %s in %.1fs" % (hstats, time.time() - t0))
    files = split_records(out, wd, 8, cfg)
    results = []
    from concurrent.futures import ThreadPoolExecutor
    with ThreadPoolExecutor(max_workers=8) as ex:
        results = list(ex.map(lambda a: V.run_tlc_trace(a[1], os.path.join(wd, "tlc%02d" % a[0]), cfg["trace_spec"]),
                              enumerate(files)))
    viols, states, lines = [], 0, 0
    for res in results:
        viols += res["violations"]
        states += res["states"]
        lines += res["lines"]
    findings = V.load_findings()
    known_hits, new, others = {}, [], {}
    seen = set()
    for v in viols:
        for inv in v["invs"]:
            key = (v["sid"], inv)
            if key in seen:
                continue
            seen.add(key)
            if not any(inv.startswith(p) for p in cfg["prefix"]):
                others[inv] = others.get(inv, 0) + 1
                continue
            f = V.match_finding(findings, pid, inv, V.viol_facts(v))
            if f:
                known_hits.setdefault(f["id"], [f, 0])[1] += 1
            else:
                new.append((inv, v))
    for fid, (f, n) in sorted(known_hits.items()):
        print("KNOWN-FINDING: property=%s %s [%s, %s, %d record group(s) this run]" % (pid, f["what"], fid, f["invariant"], n))
    models = []
    mlist = list(cfg.get("models", []))
    if cfg.get("model"):
        mlist.append(cfg["model"])
    for mod, mcfg in mlist:
        m = V.run_tlc_model(pid, mod, mcfg, timeout=900)
        V.log("design model %s: %d distinct states, violated=%s" % (mcfg, m["distinct"], m["violated"]))
        models.append(m)
    paths = []
    replay_res, replay_viol = None, 0
    if cfg.get("replay"):
        # second binding direction: behaviours of the design model stepped through the real code
        replay_res = __import__(cfg["replay"]).run(pid, tier, seed, binary)
        V.log("model->code replay: %d behaviours, %d visible steps, %d diverging behaviour(s)" % (
            replay_res["behaviours"], replay_res["visible_steps_replayed"], len(replay_res["mismatches"])))
        for n, mm in enumerate(replay_res["mismatches"][:10]):
            d = os.path.join(V.WORKROOT, pid, "violations", "replay%03d" % n)
            os.makedirs(d, exist_ok=True)
            with open(os.path.join(d, "steps.ndjson"), "w") as f:
                for line in open(replay_res["steps_file"]):
                    if json.loads(line)["beh"] == mm["behaviour"]:
                        f.write(line)
            json.dump({"property": pid, "invariant": "C18_ModelBehaviourReproduced", "mismatch": mm,
                       "rerun": "pcharness logbufreplay -in steps.ndjson -out observed.ndjson"},
                      open(os.path.join(d, "violation.json"), "w"), indent=1)
            print("VIOLATION property=%s replay=%s" % (pid, d))
            V.log("   model behaviour %d step %d (%s): %s" % (mm["behaviour"], mm["step"], mm["action"], "; ".join(mm["diffs"])[:300]))
        replay_viol = len(replay_res["mismatches"])
    for n, (inv, v) in enumerate(new[:20]):
        d = os.path.join(V.WORKROOT, pid, "violations", "%03d" % n)
        os.makedirs(d, exist_ok=True)
        hist = history_of(v["file"], v["sid"], cfg)
        open(os.path.join(d, "history.ndjson"), "w").writelines(hist)
        json.dump({"property": pid, "invariant": inv, "history": v["sid"], "record_line_in_group": v["line"], "last": v["last"]},
                  open(os.path.join(d, "violation.json"), "w"), indent=1)
        paths.append(d)
        print("VIOLATION property=%s replay=%s" % (pid, d))
        V.log("   %s in %s: %s" % (inv, v["sid"], json.dumps(v["last"])[:300]))
    samples = []
    for line in open(out):
        samples.append(json.loads(line))
        if len(samples) >= 12:
            break
    coverage = {
        "states": states + sum(m["distinct"] for m in models),
        "transitions": lines + sum(m["generated"] for m in models),
        "traces_validated_against_impl": hstats.get("histories", hstats.get("records", lines)),
        "samples": samples,
        "records": lines,
        "harness": hstats,
        "design_models": [{k: m[k] for k in ("cfg", "distinct", "generated", "wall_s", "violated", "finished")} for m in models],
        "known_findings_hit": {fid: n for fid, (f, n) in known_hits.items()},
        "other_properties_violations_seen": others,
        "new_violations": [{"invariant": inv, "history": v["sid"], "replay": p} for (inv, v), p in zip(new, paths)],
        "exhaustive": bool(cfg.get("exhaustive", False)),
        "rule": cfg.get("rule", "records produced by the real functions; each record evaluated by TLC"),
    }
    if replay_res is not None:
        coverage["model_to_code_replay"] = {k: v for k, v in replay_res.items() if k != "steps_file"}
        coverage["transitions"] += replay_res["visible_steps_replayed"]
    level = cfg.get("level", "model_checking")
    if level == "exploration":
        coverage["evaluations"] = lines
        coverage["distinct_nontrivial"] = count_distinct(out, cfg)
    V.write_evidence(pid, tier, seed, level, coverage, cfg.get("assumptions", []), time.time() - t0, len(new) + replay_viol)
    if new or replay_viol:
        return 1
    if any(m["violated"] or not m["finished"] for m in models):
        V.log("design model did not pass")
        return 2
    if lines == 0:
        return 2
    return 0


def count_distinct(path, cfg):
    """distinct parameter combinations among the records (id and times removed)"""
    seen = set()
    for line in open(path):
        e = json.loads(line)
        key = json.dumps({k: e.get(k) for k in ("trigger", "signal", "parentOnly", "timeout", "command")} |
                         {"tree": [(m["name"], m["ignores"]) for m in e.get("members", [])]}, sort_keys=True)
        seen.add(key)
    return len(seen)


def is_start(line, cfg):
    key = cfg.get("start", '"op":"new"')
    return key in line


def split_records(path, wd, groups, cfg):
    """Split the record file into `groups` files at history boundaries."""
    hists, cur = [], []
    for line in open(path):
        if is_start(line, cfg) and cur:
            hists.append(cur)
            cur = []
        cur.append(line)
    if cur:
        hists.append(cur)
    groups = max(1, min(groups, len(hists)))
    files = []
    for g in range(groups):
        p = os.path.join(wd, "group%02d.ndjson" % g)
        with open(p, "w") as f:
            for k, h in enumerate(hists):
                if k % groups == g:
                    f.writelines(h)
        if os.path.getsize(p) > 0:
            files.append(p)
    return files


def history_of(path, sid, cfg):
    out, on = [], False
    for line in open(path):
        if is_start(line, cfg):
            on = ('"%s"' % sid) in line
        if on:
            out.append(line)
    return out
