#!/usr/bin/env python3
"""Regenerates the seeded-changes table of DESIGN.md (between the SEED_TABLE markers) from seeded/RESULTS.json."""
import json
import os
import re

V = "/verif"
res = json.load(open(os.path.join(V, "seeded", "RESULTS.json")))
rows = ["| seed | change (one line) | applies to HEAD | detected by (quick tier) | predicates that fired |", "|---|---|---|---|---|"]
det = 0
tot = 0
for name in sorted(res["seeds"]):
    e = res["seeds"][name]
    try:
        meta = json.load(open(os.path.join(V, "seeded", name, "meta.json")))
    except Exception:
        meta = {}
    summ = re.sub(r"\s+", " ", meta.get("summary", ""))
    summ = summ.replace("|", "/")
    if len(summ) > 150:
        summ = summ[:147] + "..."
    tot += 1
    if e.get("detected_by"):
        det += 1
    fired = "; ".join("%s: %s" % (p, c["violated"]) for p, c in sorted(e.get("checks", {}).items()) if c["rc"] == 1)
    missed = [p for p, c in sorted(e.get("checks", {}).items()) if c["rc"] == 0]
    inc = [p for p, c in sorted(e.get("checks", {}).items()) if c["rc"] == 2]
    d = ", ".join(e.get("detected_by", [])) or "**none**"
    if missed:
        d += " (not by %s)" % ", ".join(missed)
    if inc:
        d += " (inconclusive: %s)" % ", ".join(inc)
    rows.append("| %s | %s | %s | %s | %s |" % (name, summ, e.get("status", "?"), d, fired))
table = "\n".join(rows) + "\n\n%d of %d seeded changes are detected by at least one quick check (repo HEAD %s)." % (det, tot, res.get("repo_head", "?"))
p = os.path.join(V, "DESIGN.md")
s = open(p).read()
if "SEED_TABLE_PLACEHOLDER" in s:
    s = s.replace("SEED_TABLE_PLACEHOLDER", "<!-- SEED_TABLE_BEGIN -->\n" + table + "\n<!-- SEED_TABLE_END -->")
else:
    s = re.sub(r"<!-- SEED_TABLE_BEGIN -->.*<!-- SEED_TABLE_END -->", "<!-- SEED_TABLE_BEGIN -->\n" + table.replace("\\", "\\\\") + "\n<!-- SEED_TABLE_END -->", s, flags=re.S)
open(p, "w").write(s)
print("table: %d/%d detected" % (det, tot))
