#!/usr/bin/env python3
"""showtrace.py <trace.ndjson> <scenario-id> : print the events of one scenario compactly."""
import sys, json
f, sid = sys.argv[1], sys.argv[2]
on = False
n = 0
for line in open(f):
    n += 1
    e = json.loads(line)
    if e["ev"] == "Config":
        on = e["id"] == sid
        if on:
            c = e["cfg"]
            print("CFG ordered=%s" % c["ordered"])
            for p in c["procs"]:
                print("   ", {k: v for k, v in p.items() if v not in (False, 0, "", None) or k == "name"})
            print("    edges", [(x["p"], x["k"], x["cond"]) for x in c["edges"]])
            continue
    if on:
        d = {k: v for k, v in e.items() if k not in ("ev", "seq", "t")}
        print("%6d %8d %-14s %s" % (n, e["t"], e["ev"], json.dumps(d, separators=(",", ":"))))
