"""Shared machinery of the ./check driver: build the harness against /repo's working tree,
run scenario shards, validate traces with TLC, match known findings, write evidence."""
import json
import os
import re
import shutil
import subprocess
import sys
import time
from concurrent.futures import ThreadPoolExecutor

sys.path.insert(0, os.path.dirname(os.path.abspath(__file__)))
import tlaval  # noqa: E402

VERIF = "/verif"
# the checks rebuild from /repo's working tree; VERIF_REPO / VERIF_WORKROOT / VERIF_EVIDENCE_DIR exist only so that
# seeded changes can be tried in scratch worktrees without touching /repo, /verif/work or /verif/evidence
REPO = os.environ.get("VERIF_REPO", "/repo")
WORKROOT = os.environ.get("VERIF_WORKROOT", os.path.join(VERIF, "work"))
EVIDENCE_DIR = os.environ.get("VERIF_EVIDENCE_DIR", os.path.join(VERIF, "evidence"))
NCPU = 16


def goenv():
    e = dict(os.environ)
    e.update({"GOFLAGS": "-mod=mod", "GOPROXY": "off", "GOSUMDB": "off", "GOTOOLCHAIN": "local",
              "CGO_ENABLED": "0"})
    return e


def log(*a):
    print(*a, file=sys.stderr, flush=True)


class Inconclusive(Exception):
    pass


def workdir(pid, sub=""):
    d = os.path.join(WORKROOT, pid, sub) if sub else os.path.join(WORKROOT, pid)
    os.makedirs(d, exist_ok=True)
    return d


def clean_workdir(pid):
    d = os.path.join(WORKROOT, pid)
    if os.path.isdir(d):
        shutil.rmtree(d, ignore_errors=True)
    os.makedirs(d, exist_ok=True)
    return d


def build_harness(pid):
    """go build the harness (tag verif) against /repo's current working tree."""
    wd = workdir(pid, "bin")
    out = os.path.join(wd, "pcharness")
    src = os.path.join(VERIF, "harness")
    if REPO != "/repo":
        src = os.path.join(workdir(pid), "harness_src")
        shutil.rmtree(src, ignore_errors=True)
        shutil.copytree(os.path.join(VERIF, "harness"), src)
        gm = open(os.path.join(src, "go.mod")).read().replace("=> /repo", "=> " + REPO)
        open(os.path.join(src, "go.mod"), "w").write(gm)
    shutil.copyfile(os.path.join(REPO, "go.sum"), os.path.join(src, "go.sum"))
    t0 = time.time()
    r = subprocess.run(["go", "build", "-tags", "verif", "-o", out, "./cmd/pcharness"],
                       cwd=src, env=goenv(), capture_output=True, text=True)
    if r.returncode != 0:
        log(r.stdout[-3000:], r.stderr[-3000:])
        raise Inconclusive("harness build failed (does /repo compile with -tags verif?)")
    log("built harness in %.1fs" % (time.time() - t0))
    return out


def run_lifecycle_shards(pid, binary, seed, count, families, shards=NCPU, extra=None):
    wd = workdir(pid, "traces")
    procs = []
    files = []
    for k in range(shards):
        out = os.path.join(wd, "trace.%02d.ndjson" % k)
        scen = os.path.join(wd, "scen.%02d.ndjson" % k)
        cmd = [binary, "lifecycle", "-seed", str(seed), "-shard", str(k), "-of", str(shards), "-count", str(count),
               "-families", ",".join(families), "-out", out, "-scenarios", scen]
        if extra:
            cmd += extra
        procs.append(subprocess.Popen(cmd, stdout=subprocess.DEVNULL, stderr=subprocess.PIPE, env=goenv()))
        files.append((out, scen))
    stats = {"scenarios": 0, "events": 0, "stuck": 0, "dirty": 0, "heldOK": 0, "heldTimeout": 0, "stepsRun": 0,
             "gateHits": {}, "families": {}}
    for p, (out, scen) in zip(procs, files):
        try:
            _, err = p.communicate(timeout=3600)
        except subprocess.TimeoutExpired:
            p.kill()
            raise Inconclusive("harness shard timed out")
        if p.returncode != 0:
            txt = err.decode(errors="replace")
            crash = os.path.join(wd, "shard_crash.%d.txt" % int(time.time()))
            open(crash, "w").write(txt)
            log(txt[:1500])
            log("...")
            log(txt[-1500:])
            raise Inconclusive("harness shard failed rc=%s (stderr in %s)" % (p.returncode, crash))
        try:
            st = json.load(open(out + ".stats.json"))
        except Exception:
            raise Inconclusive("harness shard wrote no stats")
        for k in ("scenarios", "events", "stuck", "dirty", "heldOK", "heldTimeout", "stepsRun"):
            stats[k] += st.get(k, 0)
        for k, v in st.get("gateHits", {}).items():
            stats["gateHits"][k] = stats["gateHits"].get(k, 0) + v
        for k, v in st.get("families", {}).items():
            stats["families"][k] = stats["families"].get(k, 0) + v
    return files, stats


VIOL_RE = re.compile(r'^"VIOL ## (.*)"$')
COV_RE = re.compile(r'^"COVERAGE ## (.*)"$')


def unescape(s):
    return s.replace('\\"', '"').replace("\\\\", "\\")


def run_tlc_trace(trace_file, wd, spec="PCLifecycleTrace", timeout=1800):
    os.makedirs(wd, exist_ok=True)
    for f in os.listdir(os.path.join(VERIF, "spec")):
        if f.endswith(".tla"):
            shutil.copyfile(os.path.join(VERIF, "spec", f), os.path.join(wd, f))
    tmpl = open(os.path.join(VERIF, "spec", spec + ".cfg.tmpl")).read()
    open(os.path.join(wd, spec + ".cfg"), "w").write(tmpl.replace("@TRACE@", trace_file))
    env = dict(os.environ)
    env["JAVA_TOOL_OPTIONS"] = "-Xss512m"
    cmd = ["timeout", str(timeout), "java", "-XX:+UseParallelGC", "-Xmx6g", "-cp",
           "/opt/veriftools/tla/tla2tools.jar:/opt/veriftools/tla/CommunityModules-deps.jar", "tlc2.TLC",
           "-workers", "1", "-metadir", os.path.join(wd, "meta"), "-config", spec + ".cfg", spec + ".tla"]
    r = subprocess.run(cmd, cwd=wd, env=env, capture_output=True, text=True)
    out = r.stdout
    open(os.path.join(wd, "out.txt"), "w").write(out + "\n" + r.stderr)
    nlines = sum(1 for _ in open(trace_file))
    viols, cov = [], {}
    for line in out.splitlines():
        m = VIOL_RE.match(line)
        if m:
            parts = unescape(m.group(1)).split(" ## ")
            try:
                viols.append({"sid": parts[0], "line": int(parts[1]), "invs": tlaval.parse(parts[2]),
                              "last": tlaval.parse(parts[3]), "ctx": tlaval.parse(parts[4]),
                              "file": trace_file})
            except Exception as ex:  # unparsable output is never a verdict
                raise Inconclusive("cannot parse TLC VIOL line: %s (%s)" % (line[:200], ex))
            continue
        m = COV_RE.match(line)
        if m:
            cov = tlaval.parse(unescape(m.group(1)))
    m = re.search(r"(\d+) states generated, (\d+) distinct states found", out)
    if not m:
        raise Inconclusive("TLC did not finish on %s (see %s/out.txt)" % (trace_file, wd))
    distinct = int(m.group(2))
    if distinct != nlines + 1 or "Error:" in out:
        raise Inconclusive("TLC did not consume the whole trace %s: %d states for %d lines (see %s/out.txt)"
                           % (trace_file, distinct, nlines, wd))
    return {"violations": viols, "coverage": cov, "states": distinct, "transitions": nlines, "lines": nlines}


def validate_traces(pid, files, groups=8, spec="PCLifecycleTrace"):
    """Concatenate shard traces into `groups` files and validate them with TLC in parallel."""
    wd = workdir(pid, "tlc")
    groups = max(1, min(groups, len(files)))
    cat_files = []
    for g in range(groups):
        path = os.path.join(wd, "group%02d.ndjson" % g)
        with open(path, "wb") as out:
            for k, (tf, _) in enumerate(files):
                if k % groups == g:
                    with open(tf, "rb") as f:
                        shutil.copyfileobj(f, out)
        if os.path.getsize(path) > 0:
            cat_files.append(path)
    t0 = time.time()
    with ThreadPoolExecutor(max_workers=groups) as ex:
        results = list(ex.map(lambda a: run_tlc_trace(a[1], os.path.join(wd, "g%02d" % a[0]), spec),
                              enumerate(cat_files)))
    log("TLC validated %d trace files in %.1fs" % (len(cat_files), time.time() - t0))
    total = {"violations": [], "coverage": {}, "states": 0, "transitions": 0, "lines": 0}
    for r in results:
        total["violations"] += r["violations"]
        total["states"] += r["states"]
        total["transitions"] += r["transitions"]
        total["lines"] += r["lines"]
        for k, v in r["coverage"].items():
            total["coverage"][k] = total["coverage"].get(k, 0) + v
    return total


# ------------------------------------------------------------------ known findings

def load_findings():
    p = os.path.join(VERIF, "known_findings.json")
    if not os.path.exists(p):
        return []
    return json.load(open(p))["findings"]


def flatten(prefix, v, out):
    if isinstance(v, dict):
        for k, x in v.items():
            flatten(prefix + k + ".", x, out)
    else:
        out[prefix[:-1]] = v


SIGFIELDS = {
    "C01_Gating": ["duringShutdown", "relaunch", "doneBefore"],
    "C02_RelaunchOnlyIfPolicy": ["relaunch"],
    "C02_NoRelaunchAfterStop": ["stopAcked", "afterShutdown"],
    "C03_NothingAliveAfterShutdown": ["aliveAny", "reportedRunning"],
    "C03_NoLaunchAfterShutdown": ["relaunch", "doneBefore"],
    "C03_RunReturns": ["phase", "blocked"],
    "C04_NoStuck": ["phase", "blocked"],
    "C12_ShutdownCompletes": ["phase", "blocked"],
    "C04_ExitCode": ["codeClass"],
    "C05_SkippedNeverLaunched": ["duringShutdown", "relaunch"],
    "C05_SkippedAtRest": ["notSkippedWhy"],
    "C08_AtMostOneAlive": ["ev"],
    "C08_StopNoRelaunch": ["relaunch"],
    "C08_StartResult": ["ok", "spawns", "known"],
    "C08_RestartResult": ["ok", "spawns", "known"],
    "C08_UnknownNameFails": ["op", "ok"],
    "C09_LegalTransition": ["from", "to"],
    "C09_NoTransientAtRest": ["transientKinds"],
    "C09_FailedHasNonZeroExit": ["zeroExitKinds"],
    "C09_ObservedTruth": ["status", "isRunning", "aliveAll", "aliveAny"],
    "C20_NoPanic": ["op", "site"],
}


def signature(inv, v):
    """Small, stable abstract context of a violation (DESIGN.md section 5)."""
    last = dict(v["last"])
    if "transient" in last:
        last["transientKinds"] = sorted({"%s/%s%s" % (t[1], "launched" if t[2] else "neverLaunched", "/skippedFirst" if len(t) > 3 and t[3] else "") for t in last["transient"]})
    if "zeroExit" in last:
        last["zeroExitKinds"] = sorted({t[1] for t in last["zeroExit"]})
    sig = {k: last.get(k) for k in SIGFIELDS.get(inv, [])}
    sig.update({"ctx." + k: x for k, x in v["ctx"].items()})
    return sig


def viol_facts(v):
    facts = {}
    flatten("last.", v["last"], facts)
    flatten("ctx.", v["ctx"], facts)
    facts["family"] = v["sid"].split("-")[0]
    last = v["last"]
    if "transient" in last:
        facts["last.transientKinds"] = sorted({"%s/%s%s" % (t[1], "launched" if t[2] else "neverLaunched", "/skippedFirst" if len(t) > 3 and t[3] else "") for t in last["transient"]})
    if "zeroExit" in last:
        facts["last.zeroExitKinds"] = sorted({t[1] for t in last["zeroExit"]})
    return facts


def match_value(pattern, actual):
    """pattern: literal, or {"nonempty": bool}, or {"contains": x}, or {"in": [...]}"""
    if isinstance(pattern, dict):
        if "nonempty" in pattern:
            return bool(actual) == pattern["nonempty"]
        if "contains" in pattern:
            return isinstance(actual, list) and any(pattern["contains"] == a or
                                                    (isinstance(a, list) and pattern["contains"] in a) for a in actual)
        if "in" in pattern:
            return actual in pattern["in"]
        if "subsetof" in pattern:
            def flat(a):
                return a if not isinstance(a, list) else tuple(flat(x) for x in a)
            allowed = [flat(x) for x in pattern["subsetof"]]
            return isinstance(actual, list) and all(flat(a) in allowed for a in actual)
        return False
    return pattern == actual


def match_finding(findings, prop, inv, facts):
    for f in findings:
        if f.get("status") != "open" or f["property"] != prop or f["invariant"] != inv:
            continue
        if all(k in facts and match_value(p, facts[k]) for k, p in f.get("when", {}).items()):
            return f
    return None


# ------------------------------------------------------------------ replay artefacts

def scenario_by_id(files, sid):
    for _, scen in files:
        if not os.path.exists(scen):
            continue
        for line in open(scen):
            if ('"id":"%s"' % sid) in line:
                return json.loads(line)
    return None


def trace_by_id(trace_file, sid):
    out, on = [], False
    for line in open(trace_file):
        if line.startswith('{"cfg"') or '"ev":"Config"' in line:
            on = ('"id":"%s"' % sid) in line
        if on:
            out.append(line)
    return out


def write_replay(pid, n, v, inv, files):
    d = os.path.join(WORKROOT, pid, "violations", "%03d" % n)
    os.makedirs(d, exist_ok=True)
    sc = scenario_by_id(files, v["sid"])
    if sc is not None:
        json.dump(sc, open(os.path.join(d, "scenario.json"), "w"), indent=1)
    open(os.path.join(d, "trace.ndjson"), "w").writelines(trace_by_id(v["file"], v["sid"]))
    json.dump({"property": pid, "invariant": inv, "scenario": v["sid"], "line_in_group_file": v["line"],
               "last": v["last"], "ctx": v["ctx"]}, open(os.path.join(d, "violation.json"), "w"), indent=1)
    return d


# ------------------------------------------------------------------ design model (TLC on the spec alone)

def run_tlc_model(pid, module, cfg, timeout=900, workers=NCPU, extra=None):
    wd = workdir(pid, "model_" + cfg.replace(".cfg", ""))
    for f in os.listdir(os.path.join(VERIF, "spec")):
        if f.endswith(".tla") or f.endswith(".cfg"):
            shutil.copyfile(os.path.join(VERIF, "spec", f), os.path.join(wd, f))
    env = dict(os.environ)
    env["JAVA_TOOL_OPTIONS"] = "-Xss512m"
    cmd = ["timeout", str(timeout), "java", "-XX:+UseParallelGC", "-Xmx12g", "-cp",
           "/opt/veriftools/tla/tla2tools.jar:/opt/veriftools/tla/CommunityModules-deps.jar", "tlc2.TLC",
           "-workers", str(workers), "-metadir", os.path.join(wd, "meta"), "-config", cfg] + (extra or []) + [module + ".tla"]
    t0 = time.time()
    r = subprocess.run(cmd, cwd=wd, env=env, capture_output=True, text=True)
    out = r.stdout
    open(os.path.join(wd, "out.txt"), "w").write(out + "\n" + r.stderr)
    m = re.search(r"(\d+) states generated, (\d+) distinct states found", out)
    res = {"module": module, "cfg": cfg, "rc": r.returncode, "wall_s": round(time.time() - t0, 1),
           "generated": int(m.group(1)) if m else 0, "distinct": int(m.group(2)) if m else 0,
           "violated": re.findall(r"Invariant (\w+) is violated", out) + re.findall(r"Action property (\w+) is violated", out)
                       + (["<temporal>"] if "Temporal properties were violated" in out else [])
                       + (["<deadlock>"] if "Deadlock reached" in out else []),
           "finished": "Model checking completed" in out or "Finished in" in out,
           "out": os.path.join(wd, "out.txt")}
    shutil.rmtree(os.path.join(wd, "meta"), ignore_errors=True)
    return res


# ------------------------------------------------------------------ evidence

def write_evidence(pid, tier, seed, level, coverage, assumptions, wall, violations):
    ev = {"property_id": pid, "tier": tier, "seed": seed, "level": level, "coverage": coverage,
          "assumptions": assumptions, "wall_s": round(wall, 1), "violations": violations}
    os.makedirs(EVIDENCE_DIR, exist_ok=True)
    json.dump(ev, open(os.path.join(EVIDENCE_DIR, pid + ".json"), "w"), indent=1, sort_keys=True)
