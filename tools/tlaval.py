"""Minimal parser for TLA+ values as printed by TLC's ToString:
records [a |-> 1, b |-> "x"], sets {..}, tuples <<..>>, strings, ints, TRUE/FALSE."""


class P:
    def __init__(self, s):
        self.s = s
        self.i = 0

    def ws(self):
        while self.i < len(self.s) and self.s[self.i] in " \t\n\r":
            self.i += 1

    def val(self):
        self.ws()
        s = self.s
        if s.startswith("[", self.i):
            self.i += 1
            rec = {}
            self.ws()
            if s.startswith("]", self.i):
                self.i += 1
                return rec
            while True:
                self.ws()
                j = self.i
                while s[self.i] not in " |":
                    self.i += 1
                key = s[j:self.i]
                self.ws()
                assert s.startswith("|->", self.i), s[self.i:self.i + 20]
                self.i += 3
                rec[key] = self.val()
                self.ws()
                if s.startswith(",", self.i):
                    self.i += 1
                    continue
                assert s.startswith("]", self.i), s[self.i:self.i + 20]
                self.i += 1
                return rec
        if s.startswith("<<", self.i):
            self.i += 2
            out = []
            self.ws()
            if s.startswith(">>", self.i):
                self.i += 2
                return out
            while True:
                out.append(self.val())
                self.ws()
                if s.startswith(",", self.i):
                    self.i += 1
                    continue
                assert s.startswith(">>", self.i)
                self.i += 2
                return out
        if s.startswith("{", self.i):
            self.i += 1
            out = []
            self.ws()
            if s.startswith("}", self.i):
                self.i += 1
                return out
            while True:
                out.append(self.val())
                self.ws()
                if s.startswith(",", self.i):
                    self.i += 1
                    continue
                assert s.startswith("}", self.i)
                self.i += 1
                return out
        if s.startswith('"', self.i):
            j = self.i + 1
            k = s.index('"', j)
            self.i = k + 1
            return s[j:k]
        if s.startswith("TRUE", self.i):
            self.i += 4
            return True
        if s.startswith("FALSE", self.i):
            self.i += 5
            return False
        j = self.i
        if s[self.i] == "-":
            self.i += 1
        while self.i < len(s) and s[self.i].isdigit():
            self.i += 1
        return int(s[j:self.i])


def parse(s):
    return P(s).val()
