#!/bin/bash
# seedtest.sh <srcdir with patch.diff demo_test.go meta.json> <name>
# Confirms a seeded change in a scratch worktree of /repo's HEAD: demo passes without it, the change applies,
# builds, the unedited suite passes, the demo fails with it. On success stores it under /verif/seeded/<name>/.
set -u
SRC="$1"; NAME="$2"
export GOFLAGS=-mod=mod GOPROXY=off GOSUMDB=off GOTOOLCHAIN=local
WT=/tmp/sw/$NAME
rm -rf "$WT"; mkdir -p /tmp/sw
git -C /repo worktree prune
git -C /repo worktree add -q --detach "$WT" HEAD || exit 2
cd "$WT"
res() { echo "SEED $NAME: $*"; }
cleanup() { cd /; git -C /repo worktree remove --force "$WT" 2>/dev/null; rm -rf "$WT"; }
PKG=$(grep -m1 "^package " "$SRC/demo_test.go" | awk "{print \$2}" | sed "s/_test$//"); DDIR=src/$PKG; [ -d "$DDIR" ] || DDIR=src/app; cp "$SRC/demo_test.go" $DDIR/zz_demo_test.go
if go test -vet=off -count=1 -run TestSeedDemo ./$DDIR/ > /tmp/sw/$NAME.demo0.out 2>&1; then D0=pass; else D0=fail; fi
rm -f $DDIR/zz_demo_test.go
if ! git apply "$SRC/patch.diff" 2>/dev/null; then
  if ! git apply --3way "$SRC/patch.diff" 2>/tmp/sw/$NAME.apply.err; then res "patch does not apply (demo-without=$D0)"; cleanup; exit 3; fi
  git reset -q
fi
if ! go build ./... 2>/tmp/sw/$NAME.build.err || ! go build -tags verif ./src/... 2>>/tmp/sw/$NAME.build.err; then res "does not build"; cleanup; exit 3; fi
git diff > /tmp/sw/$NAME.patch
if go test -vet=off -count=1 -timeout 25m ./... > /tmp/sw/$NAME.suite.out 2>&1; then SUITE=pass; else SUITE=fail; fi
PKG=$(grep -m1 "^package " "$SRC/demo_test.go" | awk "{print \$2}" | sed "s/_test$//"); DDIR=src/$PKG; [ -d "$DDIR" ] || DDIR=src/app; cp "$SRC/demo_test.go" $DDIR/zz_demo_test.go
if go test -vet=off -count=1 -run TestSeedDemo ./$DDIR/ > /tmp/sw/$NAME.demo1.out 2>&1; then D1=pass; else D1=fail; fi
rm -f $DDIR/zz_demo_test.go
res "demo-without=$D0 suite-with=$SUITE demo-with=$D1"
if [ "$D0" = pass ] && [ "$SUITE" = pass ] && [ "$D1" = fail ]; then
  mkdir -p /verif/seeded/$NAME
  cp /tmp/sw/$NAME.patch /verif/seeded/$NAME/patch.diff
  cp "$SRC/demo_test.go" /verif/seeded/$NAME/demo_test.go
  python3 - "$SRC/meta.json" /verif/seeded/$NAME/meta.json "$NAME" <<'PY'
import json,sys,subprocess
m=json.load(open(sys.argv[1]))
m["name"]=sys.argv[3]
m["confirmed_on_repo_head"]=subprocess.check_output(["git","-C","/repo","rev-parse","--short","HEAD"],text=True).strip()
m["ran"]=["scratch worktree of /repo HEAD under /tmp/sw","demo (cp demo_test.go src/app/zz_demo_test.go; go test -run TestSeedDemo ./src/app/) without the change: PASS","git apply patch.diff; go build ./... (with and without -tags verif)","whole unedited suite with the change: PASS","demo with the change: FAIL"]
json.dump(m,open(sys.argv[2],"w"),indent=1)
PY
  res "CONFIRMED -> /verif/seeded/$NAME"
fi
cleanup
