#!/bin/bash
# seedconfirm.sh <name> <agent-worktree> : confirm a sub-agent's change independently in a fresh worktree of /repo HEAD
# (builds with/without the tag, unedited suite passes with it, demo fails with it and passes without it), then store it
# as /verif/seeded/<name>/ (patch.diff, demo_test.go, confirm.log).
NAME="$1"; SRC="$2"; DEMODIR="${3:-src/app}"
export GOFLAGS=-mod=mod GOPROXY=off GOSUMDB=off GOTOOLCHAIN=local
WT=/tmp/sw/cf_$NAME; mkdir -p /tmp/sw; rm -rf "$WT"
git -C /repo worktree add -q --detach "$WT" HEAD || exit 2
D=/verif/seeded/$NAME; mkdir -p $D
cp "$SRC/patch.diff" $D/patch.diff; cp "$SRC/demo_test.go.txt" $D/demo_test.go
L=$D/confirm.log; : > $L
cd "$WT"
cp $D/demo_test.go $DEMODIR/zz_demo_test.go
go test -vet=off -count=1 -run 'TestSeedDemo$' ./$DEMODIR/ >/tmp/sw/cf_$NAME.without.out 2>&1; echo "demo_without rc=$?" >> $L
rm $DEMODIR/zz_demo_test.go
git apply $D/patch.diff; echo "apply rc=$?" >> $L
go build ./... && go build -tags verif ./... ; echo "build rc=$?" >> $L
go test -vet=off -count=1 -timeout 25m ./... >/tmp/sw/cf_$NAME.suite.out 2>&1; echo "suite_with rc=$?" >> $L
cp $D/demo_test.go $DEMODIR/zz_demo_test.go
go test -vet=off -count=1 -run 'TestSeedDemo$' ./$DEMODIR/ >/tmp/sw/cf_$NAME.with.out 2>&1; echo "demo_with rc=$?" >> $L
cd /; git -C /repo worktree remove --force "$WT"
echo "== $NAME: $(tr '\n' ' ' < $L)"
