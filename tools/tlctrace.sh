#!/bin/sh
# usage: tlctrace.sh <trace.ndjson> <workdir>   -> runs PCLifecycleTrace on the file, output in <workdir>/out.txt
set -e
T="$1"; W="$2"
mkdir -p "$W"
cp /verif/spec/PCEvents.tla /verif/spec/PCLifecycleTrace.tla "$W"/
sed "s#@TRACE@#$T#" /verif/spec/PCLifecycleTrace.cfg.tmpl > "$W/PCLifecycleTrace.cfg"
cd "$W"
JAVA_TOOL_OPTIONS="-Xss512m" timeout ${TLC_TIMEOUT:-900} tlc -workers 1 -metadir "$W/meta" -config PCLifecycleTrace.cfg PCLifecycleTrace.tla > out.txt 2>&1 || true
