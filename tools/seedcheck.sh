#!/bin/bash
# seedcheck.sh <name> <prop> [<prop>...] : apply /verif/seeded/<name>/patch.diff to /repo, run the quick checks, undo.
NAME="$1"; shift
cd /repo || exit 2
if [ -n "$(git status --porcelain)" ]; then echo "/repo not clean"; exit 2; fi
git apply /verif/seeded/$NAME/patch.diff || { echo "apply failed"; exit 2; }
for P in "$@"; do
  cd /verif && ./check $P > /tmp/sw/$NAME.$P.check.out 2>&1; RC=$?
  echo "SEEDCHECK $NAME $P rc=$RC $(grep -c '^VIOLATION' /tmp/sw/$NAME.$P.check.out) violations; $(grep -m1 -A1 '^VIOLATION' /tmp/sw/$NAME.$P.check.out | tail -1 | cut -c1-200)"
done
git -C /repo checkout -- . 
