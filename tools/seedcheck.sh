#!/bin/bash
# seedcheck.sh <name> <prop> [<prop>...] : try the seeded change /verif/seeded/<name>/patch.diff in a scratch worktree
# of /repo's HEAD (never in /repo itself) and run the quick checks against it.
NAME="$1"; shift
WT=/tmp/sw/wt_$NAME
mkdir -p /tmp/sw
git -C /repo worktree prune
rm -rf "$WT"
git -C /repo worktree add -q --detach "$WT" HEAD || exit 2
( cd "$WT" && git apply /verif/seeded/$NAME/patch.diff ) || { echo "SEEDCHECK $NAME: apply failed"; git -C /repo worktree remove --force "$WT"; exit 2; }
for P in "$@"; do
  cd /verif && VERIF_REPO="$WT" VERIF_WORKROOT=/tmp/sw/work_$NAME VERIF_EVIDENCE_DIR=/tmp/sw/ev_$NAME ./check $P > /tmp/sw/$NAME.$P.check.out 2>&1; RC=$?
  echo "SEEDCHECK $NAME $P rc=$RC $(grep -c '^VIOLATION' /tmp/sw/$NAME.$P.check.out) violations; $(grep -m1 -A1 '^VIOLATION' /tmp/sw/$NAME.$P.check.out | tail -1 | cut -c1-220)"
done
git -C /repo worktree remove --force "$WT"
rm -rf /tmp/sw/work_$NAME /tmp/sw/ev_$NAME
