#!/bin/bash
# seedsweep.sh [name ...] : run the quick checks against every confirmed seeded change in /verif/seeded (or the named
# ones), each in a scratch worktree of /repo's HEAD (never in /repo itself), and write /verif/seeded/RESULTS.json.
# For every seed: does the patch still apply to HEAD, and which checks report a violation (rc=1).
cd /verif
NAMES="$@"
[ -z "$NAMES" ] && NAMES=$(ls seeded | grep -v RESULTS)
extra() {  # checks tried in addition to the seed's own property
  case "$1" in
    C20b) echo "C03 C04" ;;
    C20a) echo "" ;;
    C02a) echo "C03" ;;
    C02d) echo "C03 C08" ;;
    C03d) echo "C06" ;;
    C10c) echo "C02" ;;
    C12d) echo "C13 C14" ;;
    C14d) echo "C13" ;;
    C20c) echo "C13" ;;
    C20d) echo "C18" ;;
    C09c) echo "C02" ;;
    C09d) echo "C08" ;;
    C11c|C18d) echo "C18 C11" ;;
    C19c) echo "C18" ;;
    C17c) echo "C20" ;;
    C04b) echo "C10" ;;
    C09b) echo "C08" ;;
    C08a) echo "C09" ;;
    C05b) echo "C09 C04" ;;
    C01a|C05a) echo "C01 C05" ;;
    C13b) echo "C14" ;;
    C11b|C18b) echo "C18 C11" ;;
    C02e) echo "C03 C12" ;;
    C09e) echo "C08" ;;
    C03e) echo "C08" ;;
    C14e) echo "C02" ;;
    *) echo "" ;;
  esac
}
mkdir -p /tmp/sw work
OUT=work/seedsweep.tsv
: > $OUT
for NAME in $NAMES; do
  [ -f seeded/$NAME/patch.diff ] || continue
  PROP=${NAME:0:3}
  WT=/tmp/sw/wt_$NAME
  git -C /repo worktree prune; rm -rf "$WT"
  git -C /repo worktree add -q --detach "$WT" HEAD || { echo -e "$NAME\t-\tworktree-failed" >> $OUT; continue; }
  if ! ( cd "$WT" && ( git apply /verif/seeded/$NAME/patch.diff 2>/dev/null || ( git apply --3way /verif/seeded/$NAME/patch.diff 2>/dev/null && git reset -q ) ) ); then
    echo -e "$NAME\t-\tno-longer-applies" >> $OUT
    git -C /repo worktree remove --force "$WT"; continue
  fi
  if ! ( cd "$WT" && GOFLAGS=-mod=mod GOPROXY=off GOSUMDB=off GOTOOLCHAIN=local go build ./... 2>/dev/null ); then
    echo -e "$NAME\t-\tno-longer-builds" >> $OUT
    git -C /repo worktree remove --force "$WT"; continue
  fi
  for P in $(echo "$PROP $(extra $NAME)" | tr ' ' '\n' | sort -u); do
    VERIF_REPO="$WT" VERIF_WORKROOT=/tmp/sw/work_$NAME VERIF_EVIDENCE_DIR=/tmp/sw/ev_$NAME timeout 3000 ./check $P > /tmp/sw/$NAME.$P.check.out 2>&1; RC=$?
    INV=$(grep -A1 '^VIOLATION' /tmp/sw/$NAME.$P.check.out | grep -o 'C[0-9][0-9]_[A-Za-z]*' | sort | uniq -c | sort -rn | awk '{printf "%s(%s) ", $2, $1}')
    echo -e "$NAME\t$P\trc=$RC\t$INV" >> $OUT
    echo "SEEDSWEEP $NAME $P rc=$RC $INV"
  done
  git -C /repo worktree remove --force "$WT"
  rm -rf /tmp/sw/work_$NAME /tmp/sw/ev_$NAME
done
python3 - <<'PY'
import json, subprocess
rows = [l.rstrip("\n").split("\t") for l in open("/verif/work/seedsweep.tsv")]
head = subprocess.check_output(["git", "-C", "/repo", "rev-parse", "--short", "HEAD"], text=True).strip()
try:
    res = json.load(open("/verif/seeded/RESULTS.json"))
except Exception:
    res = {}
res.setdefault("seeds", {})
res["repo_head"] = head
seen = set()
for r in rows:
    name = r[0]
    e = res["seeds"].setdefault(name, {})
    if name not in seen:
        seen.add(name)
        e["checks"] = {}
    e["repo_head"] = head
    if r[1] == "-":
        e["status"] = r[2]; e["checks"] = {}
        continue
    e["status"] = "applies"
    e.setdefault("checks", {})[r[1]] = {"rc": int(r[2].split("=")[1]), "violated": r[3].strip() if len(r) > 3 else ""}
for name, e in res["seeds"].items():
    e["detected_by"] = sorted(p for p, c in e.get("checks", {}).items() if c["rc"] == 1)
json.dump(res, open("/verif/seeded/RESULTS.json", "w"), indent=1, sort_keys=True)
print("seeds:", len(res["seeds"]), "detected:", sum(1 for e in res["seeds"].values() if e.get("detected_by")))
PY
