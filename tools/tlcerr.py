#!/usr/bin/env python3
"""tlcerr.py <tlc output> : condensed counterexample: per state the action name and S.last / changed ctl.ipc."""
import sys,re
txt=open(sys.argv[1]).read()
m=re.search(r'Error: (Invariant .*|Action property .*|Temporal.*)',txt)
print(m.group(1) if m else "no error")
states=re.split(r'\nState (\d+): ',txt)
for k in range(1,len(states),2):
    body=states[k+1]
    head=body.split('\n',1)[0]
    last=re.search(r'last \|->\s*\[(.*?)\]\s*\]\s*\n/\\ ctl',body,re.S)
    ipc=re.search(r'ipc \|-> (<<.*?>>|\(.*?\)),',body,re.S)
    l=re.sub(r'\s+',' ',last.group(1)) if last else ''
    print(states[k], head[:60], '| last:', l[:230], '| ipc:', re.sub(r'\s+',' ',ipc.group(1))[:120] if ipc else '')
