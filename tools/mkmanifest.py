#!/usr/bin/env python3
"""Regenerates /verif/MANIFEST.json from the table below (one source of truth for the claimed checks)."""
import json
import subprocess

props = {json.loads(l)["id"]: json.loads(l) for l in open('/verif/properties.jsonl')}

LIFE_NOTE = ("Trusted: TLC + CommunityModules Json; hooks (build tag verif) emit events at linearization points under the guarding lock; "
             "managed commands are scripted commanders (ground truth for alive/exit/signal); back-off scaled through the verifBackoff hook; "
             "bounded scenario space (<=6 processes, seeded). Open known findings (known_findings.json) are reported, not failed.")
LIFE_TXT = ("Trace validation against the explicit TLA+ specification PCEvents/PCLifecycleTrace: the real ProjectRunner (built from /repo with "
            "-tags verif, scripted commanders) runs seeded scenarios with gate-triggered API calls; TLC replays every recorded event through Apply and evaluates %s. "
            "Exhaustive TLC runs of the code-shaped design model (PCLifecycle, which generates the same events) cover all interleavings for small constants.")
REC_NOTE = ("Trusted: TLC + CommunityModules Json; the harness only projects inputs/outputs of the real functions (no expected values on the Go side); "
            "input alphabets are finite and listed in the evidence 'rule'.")
REC_TXT = "Record validation against the explicit TLA+ specification %s: the harness calls the real %s on generated / enumerated inputs and TLC evaluates %s on every record."

CHECKS = {
    "C01": ("lifecycle", LIFE_TXT % "C01_Gating at every Launch event (dependency condition met before the launch, for every scheduled dependency, all five condition types; ground truth exit codes) and C01_ResolvedInstanceMet at every DepSatisfied event (a wait for completion ends only after the Done of the very instance that was looked up, exit 0 for completed_successfully; family regate restarts a chain from its root)", LIFE_NOTE),
    "C02": ("lifecycle", LIFE_TXT % "C02_* (relaunch only if the policy allows, never after an acknowledged stop / shutdown request / returned shutdown, must relaunch when the policy says so, back-off value and lower bound on the measured gap, restart counter) at every Launch / Done / Backoff event", LIFE_NOTE),
    "C03": ("lifecycle", LIFE_TXT % "C03_* (nothing alive or reported running at ShutdownReturn, no launch afterwards of an instance that existed before, Run() returns) on executions where the shutdown is fired at every gate of the life cycle", LIFE_NOTE),
    "C04": ("lifecycle", LIFE_TXT % "C04_* (Run() not early, never stuck, exit code is that of a non-victim trigger; C04_ExitCodeFromTrigger: the code is set (ProjExit event) only on behalf of a process that ended as a trigger before any shutdown had begun) at RunReturn / ProjExit / by the quiescence watchdog", LIFE_NOTE),
    "C05": ("lifecycle", LIFE_TXT % "C05_* (no launch with a terminally unsatisfied dependency, Skipped with non-zero exit at rest, exit_on_skipped) with a dedicated family enumerating the failure modes of a dependency", LIFE_NOTE),
    "C08": ("lifecycle", LIFE_TXT % "C08_* (at most one alive command per replica as a state invariant; start/restart results and spawn counts; no relaunch after an acknowledged stop; no vanished instance) on sequential and overlapping API histories", LIFE_NOTE),
    "C09": ("lifecycle", LIFE_TXT % "C09_* (legal per-instance transitions at every State event; reaped code; interval-observed snapshots; at rest: no transient state, terminal means dead, failed means non-zero, exit code truth)", LIFE_NOTE),
    "C10": ("lifecycle", LIFE_TXT % "C10_* (Ready only after a success of the current launch, health forgotten, fatal exactly at the threshold-th consecutive failure, fatal then policy, no probe effect after the end) with probe completions injected through the real prober path; plus record validation of the effective probe parameters (PCConfig C10_EffectiveParamsLegal over a parameter grid)", LIFE_NOTE),
    "C12": ("lifecycle", LIFE_TXT % "C12_NoSignalWhileDependentAlive at every Signal of an ordered shutdown + completion; plus record validation (PCScale C12_DependentsFirstDuringRemoval) of ordered shutdowns begun while a scale-down / update is removing a slow dependent", LIFE_NOTE),
    "C06": ("records", "Real bash process trees stopped through StopProcess / ShutDownProject and through SIGTERM / SIGINT / SIGHUP sent to the built binary; every member logs the signals it receives and deaths are observed through /proc; TLC evaluates C06_* (PCStop: signal as configured, group unless parent_only, SIGKILL not before the time-out and after it if still alive, shutdown command environment / directory, SIGKILL only if the command failed, no reachable survivor) on every scenario record and explores the design model of the escalation exhaustively over the parameter space.", "Exploration level: real processes, the kernel schedules them; the instant of the stop is sampled. Trusted: TLC, /proc, bash trap semantics (background children of a non-interactive bash ignore SIGINT: signal 2 is only used on leaf trees)."),
    "C07": ("records", REC_TXT % ("PCPlan", "loader.Load / NewProjectRunner / GetDependenciesOrderNames / Run()", "C07_* (reject iff cycle or dangling, exact topological order, selection = closure, deferred never launched, loaded plan runs to completion)"), REC_NOTE),
    "C15": ("records", REC_TXT % ("PCConfig (merge)", "loader on generated file lists and extends chains", "C15_* (process union, override wins, environment and depends_on merged by key byte-exactly, extends = explicit list modulo working-dir resolution)"), REC_NOTE),
    "C16": ("records", REC_TXT % ("PCConfig (load)", "loader (5 loads per file)", "C16_* (deterministic, defaults, canonical replica names, per-replica rendering from the token form of every template, no aliasing between replicas)"), REC_NOTE),
    "C17": ("records", REC_TXT % ("PCConfig (environment)", "loader and the launch path of the runner (scripted commanders record SetEnv/SetDir)", "C17_* (expansion of $VAR / ${VAR} / $$ from token sequences, injected variables, precedence per-process > global > inherited, working directory)"), REC_NOTE),
    "C13": ("records", REC_TXT % ("PCScale", "ScaleProcess on a live runner with scripted commanders (projection of the four maps, per-replica config/state/log and ground-truth commands before and after)", "C13_* (exactly n canonical replicas, four maps agree, same as a fresh load, rendered for its own replica number, survivors undisturbed, removed terminated, added launched, invalid requests rejected without effect)"), REC_NOTE),
    "C14": ("records", REC_TXT % ("PCScale / PCConfig", "UpdateProject on a live runner (sequences of up to 3 updates) and ProcessConfig.Compare on pairs differing in known fields", "C14_* (set equals new, unchanged keep their instance, changed are terminated before the new instance is launched with the new argv/env/dir, removed gone, added launched, status map exact, change detection of every launch-relevant field)"), REC_NOTE),
    "C11": ("records", "Real commands (bash) run through the real output pipeline (pipes -> reader goroutines -> log buffer / logger -> file); every written line carries a unique id; TLC evaluates C11_AllLinesOnceInOrder / C11_FileComplete (PCOutput) on every run record; the design model of the pipe / reader / Wait protocol is explored exhaustively (and shows the loss when a reader is not waited for).", REC_NOTE + " Real processes: the OS schedules them, instants are sampled not enumerated."),
    "C19": ("records", REC_TXT % ("PCApi (a refinement statement: each route is the corresponding runner operation)", "gin router (api.InitRoutes) over a recording decorator around the real runner, raw HTTP requests and the bundled client", "C19_* (never 5xx, still serving, same operation, invalid is 4xx, error is 4xx with the runner's message, same result, client decodes the same value / error)"), REC_NOTE),
    "C20": ("records", "Every pair (and seeded triples) of API operations {state, states, project state, log range, log subscribe/unsubscribe, start, stop, restart, scale, update, info} "
            "runs concurrently for 250 ms against a live runner (scripted commanders whose processes exit, restart and log), each batch in its own OS process; "
            "TLC evaluates C20_NoCrash / C20_EveryCallReturns (PCConcRec) on every batch record (recovered panics, fatal runtime errors such as concurrent map access, "
            "calls in flight for more than 10 s, a shutdown or Run() that does not return, with the sites the goroutines are parked at). The lock / wait structure of the "
            "operations (PCConc) is explored exhaustively with TLC's deadlock detection, and the code-shaped life-cycle model with two overlapping, non-serialised API calls "
            "(PCLifecycle_manualconc.cfg, 65 M states, run by C08's thorough tier) satisfies every life-cycle invariant.",
            REC_NOTE + " The data-race half of the property (races without a crash or deadlock consequence) is NOT decided: the technique observes executions, "
            "not memory accesses (DESIGN.md section 7). Schedules are sampled (250 ms of free-running goroutines per batch), not enumerated."),
    "C18": ("records", "Operation histories of the real pclog.ProcessLogBuffer (exhaustive (offset, limit) grids on small logs and around the trim boundary; a writer concurrent with subscribers; stalled follower) validated by TLC against PCLogBuffer / PCLogBufferTrace (C18_Recent, C18_RangeWindow, C18_FollowerNoGapNoDup, C18_StalledFollowerDoesNotBlock); the design model is explored exhaustively for small constants. Second binding direction (model -> code): TLC -simulate behaviours of PCLogBuffer with the implementation's slack (PCLogBuffer_replay.cfg) are stepped through the real buffer and the buffer content, write count and every follower's received lines are compared with the model state after every externally visible step.", REC_NOTE),
}
try:
    import mkmanifest_more
    CHECKS.update(mkmanifest_more.CHECKS)
except ImportError:
    pass

NA_REASON = {}
try:
    NA_REASON.update(mkmanifest_more.NA_REASON)
except Exception:
    pass

hook_commits = subprocess.check_output(["git", "-C", "/repo", "log", "--format=%h %s"], text=True).splitlines()
hooks = [l.split()[0] for l in hook_commits if "verif hooks" in l or "verification hooks" in l]

checks = []
for pid in sorted(CHECKS):
    engine, text, note = CHECKS[pid]
    checks.append({
        "property_id": pid,
        "quick_cmd": "./check %s --tier quick" % pid,
        "thorough_cmd": "./check %s --tier thorough" % pid,
        "evidence_file": "evidence/%s.json" % pid,
        "replay_cmd_template": "./check %s --replay {path}" % pid,
        "engine": engine,
        "level_claimed": {"category": "exploration" if pid == "C06" else "model_checking", "text": text, "design_ref": "DESIGN.md sections 3, 4, 6 (%s)" % pid},
        "level_note": note,
        "technique": "TLA+ trace validation with TLC + TLC exhaustive design model" if engine == "lifecycle" else "TLA+ record / history validation with TLC",
    })
na = [{"property_id": p, "reason": NA_REASON.get(p, "check not built yet (work in progress; see DESIGN.md section 10 for the order)")}
      for p in sorted(props) if p not in CHECKS]
m = {"version": 1,
     "setup_cmd": "cp /repo/go.sum harness/go.sum && cd harness && GOFLAGS=-mod=mod GOPROXY=off GOSUMDB=off GOTOOLCHAIN=local go build -tags verif -o /verif/work/bin/pcharness ./cmd/pcharness && cd /verif/spec && for f in PCLifecycleTrace PCLifecycleMC PCLogBufferTrace PCConfigTrace; do tla-sany $f.tla >/dev/null || exit 1; done",
     "hooks": {"guard": "verif", "enable": "go build/test -tags verif (GOFLAGS=-mod=mod GOPROXY=off GOSUMDB=off GOTOOLCHAIN=local)",
               "baseline_off_cmd": "cd /repo && GOFLAGS=-mod=mod GOPROXY=off GOSUMDB=off GOTOOLCHAIN=local go test -json -vet=off -count=1 -timeout 25m ./...",
               "source_commits": hooks, "add_only": True},
     "engines": [{"name": "lifecycle", "path": "tools/lifecycle_check.py", "serves_properties": [p for p in sorted(CHECKS) if CHECKS[p][0] == "lifecycle"],
                  "kind_free_text": "Go harness (harness/lifecycle, scripted commanders, gates) -> ndjson traces -> TLC trace validation (spec/PCLifecycleTrace.tla over spec/PCEvents.tla) + TLC on the design model spec/PCLifecycle.tla"},
                 {"name": "records", "path": "tools/record_checks.py", "serves_properties": [p for p in sorted(CHECKS) if CHECKS[p][0] == "records"],
                  "kind_free_text": "Go harness (harness/records) calling the real functions -> ndjson records -> TLC (spec/PCConfigTrace.tla, spec/PCLogBufferTrace.tla)"}],
     "checks": checks,
     "notes": "See DESIGN.md. known_findings.json lists open findings (reported as KNOWN-FINDING lines) and the fix: commits made in /repo. seeded/ holds confirmed seeded changes used to test the checks.",
     "not_applicable": na}
json.dump(m, open('/verif/MANIFEST.json', 'w'), indent=1)
print("checks:", [c["property_id"] for c in checks], "hooks:", hooks)
