"""Registration of the record-validated configuration properties (see record_checks.py)."""
COMMON = ["records are written by the harness from the real loader / runner; TLC evaluates the predicates of PCPlan / PCConfig on every record",
          "text-shaped inputs are token sequences rendered to YAML by the harness; the expected text is computed by the specification by concatenation"]
PROPS = {
    "C20": dict(sub="conc", trace_spec="PCConfigTrace", prefix=["C20_"], start='"kind":',
                models=[("PCConc", "PCConc_mc%d.cfg" % k) for k in (1, 2, 3, 4, 5)],
                rule="every pair (and seeded triples) of {state, states, project state, log range, log subscribe/unsubscribe, start, stop, restart, scale, update, info, shutdown} "
                     "run concurrently for 250 ms against a live runner whose processes exit, restart and log; each batch in its own OS process; "
                     "recovered panics, fatal runtime errors of the batch process, calls in flight for more than 10 s and a shutdown / Run() that does not return are recorded",
                assumptions=["data races as such are NOT decided here (see DESIGN.md section 7): only their crash / deadlock consequences are observable",
                             "the lock model PCConc mirrors the order of lock acquisitions and waits of the API operations and process goroutines (hand-written from the code, bound to it only through the 'no call blocks' records); it is explored exhaustively for five thread sets with TLC's deadlock detection"]),
    "C06": dict(sub="osstop", trace_spec="PCConfigTrace", prefix=["C06_"], start='"kind":', model=("PCStop", "PCStop_mc.cfg"), needs_pcbin=True,
                level="exploration",
                rule="real bash process trees (parent / child / grandchild) whose members trap and log every signal; parameters: signal in {unset,1,2,10,15,31,32,-1}, "
                     "parent_only, timeout in {0,1,2}, shutdown command none/ok/fails/hangs, one member ignoring the signal; triggers StopProcess, ShutDownProject and "
                     "SIGTERM/SIGINT/SIGHUP sent to the built binary; deaths observed through /proc",
                assumptions=["real processes: the kernel schedules them; the instant of the stop is sampled (all members started), not enumerated",
                             "time-out lower bounds are checked, upper bounds are not (beyond the watchdog)",
                             "survivors are only demanded for members the configuration can reach (group-signalled members that die on the signal, or any member when a time-out is configured and the parent itself ignores the signal)"]),
    "C19": dict(sub="api", trace_spec="PCConfigTrace", prefix=["C19_"], start='"kind":',
                rule="request sequences (45 per history) over all REST routes against a live runner with scripted commanders; path parameters from "
                     "{valid names, unknown, %2F, %20, very long, unicode, ..} and {-1,0,1,2,3,2^31,2^63,x,1.5,blank,1e3}; bodies valid / truncated / wrong types / empty; "
                     "the same operations through the bundled client; /live probed after every request; non-following log streams over the websocket route through the bundled LogClient",
                assumptions=["a recording decorator around the real runner logs the direct call the handler makes: three views of one operation per record",
                             "JSON bodies are compared after removing volatile fields (age, system_time, mem, cpu, uptime, start time, OriginalConfig)",
                             "PcClient.GetProcessLog (panic: implement me) is not exercised; the websocket log stream is exercised through the bundled LogClient for non-following streams only (single-process streams are compared with the direct call; a two-process stream serves as a stimulus)"]),
    "C11": dict(sub="output", trace_spec="PCConfigTrace", prefix=["C11_"], start='"kind":', model=("PCOutput", "PCOutput_mc.cfg"),
                rule="real bash commands through the real pipeline: line counts {0,1,2,10,random,bursts of 200/2000/20000 right before exit} x "
                     "stream mixes x very long lines (64 KiB+) x final line without newline x 1-3 attempts x logger none/per-process/flush_each_line/no_metadata/project file x log_length",
                assumptions=["real processes (no commander seam); every written line carries a unique id; the log may hold supervisor-inserted separator lines (counted as junk)",
                             "restart back-off scaled by 100 through the verifBackoff hook"]),
    "C13": dict(sub="scale", args=["-only", "scale"], trace_spec="PCConfigTrace", prefix=["C13_"], start='"kind":',
                rule="sequences of 3 scale requests over targets {1,2,3,9,10,11} (thorough: also 99,100,101) incl. n<1, unknown / stale names, current value, "
                     "addressing by replica name; templates over PC_REPLICA_NUM in command/description/log_location/probe; some replicas already finished",
                assumptions=COMMON + ["scripted commanders are the ground truth for which replica's command is alive / was signalled"]),
    "C14": dict(sub="scale", args=["-only", "update"], trace_spec="PCConfigTrace", prefix=["C14_"], start='"kind":',
                rule="projects of 2-4 processes + an anchor; up to 3 successive updates; each process removed / changed in 1-2 launch-relevant fields "
                     "(command, entrypoint, environment, working_dir, readiness probe, restart policy, shutdown signal, depends_on) / cosmetic / same; processes added",
                assumptions=COMMON + ["a difference confined to the description is accepted either way (counted as cosmetic)"]),
    "C07": dict(sub="plan", trace_spec="PCConfigTrace", prefix=["C07_"], start='"kind":',
                rule="all digraphs (self loops included) on <=3 nodes x3 loads, loop-free digraphs on 4 nodes (sample; all in thorough), dangling edges, "
                     "acyclic graphs x requested subsets x no-deps x disabled/foreground/replica markings, random graphs on 3-8 nodes",
                exhaustive=False,
                assumptions=COMMON + ["all dependency conditions are process_completed and every scripted command exits 0 at once, so every started process is launched"]),
    "C15": dict(sub="merge", trace_spec="PCConfigTrace", prefix=["C15_"], start='"kind":',
                rule="every tracked option alone and in pairs, every environment value untouched/overridden, random 2-3 file chains; each also as an extends chain",
                assumptions=COMMON + ["overrides only use non-zero values (mergo cannot tell an unset option from a zero value)",
                                      "tracked single-valued options: command, description, log_location, working_dir, ready_log_line, is_daemon"]),
    "C16": dict(sub="load", trace_spec="PCConfigTrace", prefix=["C16_"], start='"kind":',
                rule="generated files with replicas in {1,2,3,10,11}, templates over PC_REPLICA_NUM / global / local (shadowing) variables in every renderable field, both probe kinds; 5 loads each",
                assumptions=COMMON),
    "C17": dict(sub="env", trace_spec="PCConfigTrace", prefix=["C17_"], start='"kind":',
                rule="token sequences over $VAR, ${VAR}, $$ and literals in command / working_dir / log_location / environment with controlled process environment and .env; "
                     "launch environment over the 16 overlap patterns of a key across inherited / global / env_cmds / per-process layers",
                assumptions=COMMON + ["environment values avoid double quotes and backslashes: expansion is textual and happens before the YAML is parsed",
                                      "effective launch environment = last value of a duplicate key (os/exec semantics)"]),
}
