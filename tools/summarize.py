#!/usr/bin/env python3
"""summarize.py <work/Cxx> : histogram of (invariant, condensed context) over all VIOL lines of a run."""
import sys, os, re, json, collections
sys.path.insert(0, os.path.dirname(os.path.abspath(__file__)))
import pcverif as V, tlaval
wd = sys.argv[1]
hist = collections.Counter(); ex = {}
seen=set()
for g in sorted(os.listdir(os.path.join(wd, "tlc"))):
    out = os.path.join(wd, "tlc", g, "out.txt")
    if not os.path.exists(out): continue
    for line in open(out):
        m = V.VIOL_RE.match(line.strip())
        if not m: continue
        parts = V.unescape(m.group(1)).split(" ## ")
        sid = parts[0]; invs = tlaval.parse(parts[2]); last = tlaval.parse(parts[3]); ctx = tlaval.parse(parts[4])
        for inv in invs:
            if (sid, inv) in seen: continue
            seen.add((sid, inv))
            keep = V.signature(inv, {"last": last, "ctx": ctx})
            key = (inv, json.dumps(keep, sort_keys=True), sid.split("-")[0])
            hist[key] += 1; ex.setdefault(key, sid)
for (inv, k, c), n in sorted(hist.items()):
    print("%4d %-32s %s %s   e.g. %s" % (n, inv, k[:230], c, ex[(inv, k, c)]))
